"""E4 driver side: sandboxes, the persistent cli_runner process, result collection."""
import os, sys, subprocess, shutil, stat, struct, hashlib, time

VERIF = os.path.dirname(os.path.dirname(os.path.abspath(__file__)))
sys.path.insert(0, os.path.join(VERIF, "tools"))
import build  # noqa
from vlib import lzhfmt  # noqa

WRAPS = "open fopen mkdir rmdir unlink remove chmod chown lchown utime truncate creat mknod symlink rename link fchmod fchown".split()
NOBODY = 65534
NOW = 1335830400          # the suite's fixed "now" (2012-05-01)


def runner_binary(flavour="asan"):
    ld = " ".join("-Wl,--wrap=%s" % w for w in WRAPS)
    return build.ensure_explorer("cli_runner", flavour, with_cli=True, extra_ld=ld, ref=False)


_blobs = {}


def blob(method, size, seed=1):
    """(plain, stream) for a method from the reference serialisers"""
    key = (method, size, seed)
    if key not in _blobs:
        exe = build.ensure_explorer("mkstream", "plain", lib=False)
        out = subprocess.run([exe, method, str(size), str(seed)], stdout=subprocess.PIPE).stdout.decode().split()
        _blobs[key] = (bytes.fromhex(out[1]) if len(out) > 1 else b"", bytes.fromhex(out[2]) if len(out) > 2 else b"")
    return _blobs[key]


class Result:
    pass


def unescape(s):
    out = bytearray()
    i = 0
    b = s.encode("latin1") if isinstance(s, str) else s
    while i < len(b):
        if b[i:i + 2] == b"\\x":
            out.append(int(b[i + 2:i + 4], 16)); i += 4
        else:
            out.append(b[i]); i += 1
    return bytes(out)


def walk_tree(top):
    """relative path (bytes) -> (kind, mode, mtime, data)   kind: d f l"""
    out = {}
    topb = os.fsencode(top)
    for root, dirs, files in os.walk(topb):
        for name in dirs + files:
            p = os.path.join(root, name)
            rel = os.path.relpath(p, topb)
            st = os.lstat(p)
            if stat.S_ISLNK(st.st_mode):
                out[rel] = ("l", 0, int(st.st_mtime), os.readlink(p))
            elif stat.S_ISDIR(st.st_mode):
                out[rel] = ("d", stat.S_IMODE(st.st_mode), int(st.st_mtime), None)
            else:
                try:
                    with open(p, "rb") as f:
                        data = f.read()
                except OSError:
                    data = None
                out[rel] = ("f", stat.S_IMODE(st.st_mode), int(st.st_mtime), data)
        # os.walk does not descend into symlinked dirs by default (followlinks=False)
    return out


def make_tree(top, entries, owner=None):
    """entries: list of (relpath, kind, data_or_target, mode, mtime)"""
    for rel, kind, data, mode, mtime in entries:
        p = os.path.join(os.fsencode(top), rel) if isinstance(rel, bytes) else os.path.join(top, rel)
        os.makedirs(os.path.dirname(p), exist_ok=True)
        if kind == "d":
            os.makedirs(p, exist_ok=True)
        elif kind == "l":
            os.symlink(data, p)
        else:
            with open(p, "wb") as f:
                f.write(data)
        if kind != "l":
            if mode is not None:
                os.chmod(p, mode)
            if mtime is not None:
                os.utime(p, (mtime, mtime))
        if owner:
            os.lchown(p, owner, owner)


def force_remove(top):
    for root, dirs, files in os.walk(top):
        for d in dirs:
            p = os.path.join(root, d)
            if not os.path.islink(p):
                try:
                    os.chmod(p, 0o700)
                except OSError:
                    pass
    shutil.rmtree(top, ignore_errors=True)


class Runner:
    def __init__(self, base, env=None, flavour="asan"):
        self.base = base
        os.makedirs(base, exist_ok=True)
        os.chmod(base, 0o755)
        e = dict(os.environ)
        e.update({"TZ": "UTC", "LC_ALL": "C", "TEST_NOW_TIME": str(NOW),
                  "ASAN_OPTIONS": "detect_leaks=0:exitcode=86:abort_on_error=0:allocator_may_return_null=1:quarantine_size_mb=8",
                  "UBSAN_OPTIONS": "print_stacktrace=1:halt_on_error=1:exitcode=87"})
        if env:
            e.update(env)
        self.proc = subprocess.Popen([runner_binary(flavour)], stdin=subprocess.PIPE, stdout=subprocess.PIPE, env=e, cwd=base)
        self.n = 0

    def close(self):
        try:
            self.proc.stdin.close()
            self.proc.wait(timeout=5)
        except Exception:
            self.proc.kill()

    def run(self, archive, argv, stdin=b"", pre=(), outside=(), uid=0, archive_mtime=NOW - 1000, timeout=20, keep=False,
            archive_arg=b"../archive.lzh", want_trees=True, stdin_pipe=False, umask=None, nofile=None, fsize=None, stdout_kind=None):
        self.n += 1
        if uid and os.geteuid() != 0:
            uid = 0          # cannot drop privileges: the case runs as the invoking user (who is then not root either)
        S = os.path.join(self.base, "c%d" % self.n)
        root = os.path.join(S, "root")
        os.makedirs(root)
        os.makedirs(os.path.join(S, "outside"))
        if callable(archive):
            archive = archive(S)
        with open(os.path.join(S, "archive.lzh"), "wb") as f:
            f.write(archive)
        os.utime(os.path.join(S, "archive.lzh"), (archive_mtime, archive_mtime))
        with open(os.path.join(S, "stdin"), "wb") as f:
            f.write(stdin)
        if stdin_pipe:
            open(os.path.join(S, "stdin-pipe"), "w").close()
        if stdout_kind in ("full", "closed"):
            open(os.path.join(S, "stdout-" + stdout_kind), "w").close()
        for nm, val, fmt in (("umask", umask, "%o"), ("nofile", nofile, "%d"), ("fsize", fsize, "%d")):
            if val is not None:
                with open(os.path.join(S, nm), "w") as f:
                    f.write(fmt % val)
        make_tree(root, pre, owner=NOBODY if uid else None)
        make_tree(os.path.join(S, "outside"), outside)
        if uid:
            os.chown(root, uid, uid)
        os.chmod(S, 0o755)
        before_out = walk_tree(os.path.join(S, "outside")) if want_trees else None
        args = [os.fsencode(a) if isinstance(a, str) else a for a in argv]
        line = b"\x1f".join([os.fsencode(S), str(uid).encode(), str(timeout).encode(), b"lha"] + args) + b"\n"
        if b"\n" in line[:-1]:
            raise ValueError("newline in argv")
        self.proc.stdin.write(line)
        self.proc.stdin.flush()
        status = self.proc.stdout.readline().decode().strip()
        r = Result()
        r.S = S
        r.status = status[5:] if status.startswith("done ") else "runner-died"
        r.stdout = open(os.path.join(S, "stdout"), "rb").read() if os.path.exists(os.path.join(S, "stdout")) else b""
        r.stderr = open(os.path.join(S, "stderr"), "rb").read() if os.path.exists(os.path.join(S, "stderr")) else b""
        r.ops = []
        if os.path.exists(os.path.join(S, "oplog")):
            for ln in open(os.path.join(S, "oplog"), "rb").read().split(b"\n"):
                f = ln.split(b"\t")
                if len(f) >= 6:
                    r.ops.append((f[0].decode(), unescape(f[1]), unescape(f[2]), unescape(f[3]).decode("latin1"), int(f[4]), int(f[5])))
        if want_trees:
            r.tree = walk_tree(root)
            r.outside_before = before_out
            r.outside_after = walk_tree(os.path.join(S, "outside"))
            r.top = sorted(os.listdir(S))
        if not keep:
            force_remove(S)
        return r


MUTATING = {"mkdir", "rmdir", "unlink", "remove", "chmod", "chown", "lchown", "utime", "truncate", "creat", "mknod", "symlink", "rename", "link", "fchmod", "fchown"}


def is_mutating(op):
    name, path, res, extra, result, err = op
    if name in MUTATING:
        return True
    if name == "open":
        return "flags=w" in extra or "c" in extra.split(" ")[0][6:]
    if name == "fopen":
        return not extra.startswith("mode=r") or "+" in extra
    return False
