"""Shared scaffolding of the E4 property checks: a pool of workers, each with its own cli_runner process,
over a deterministic, completely enumerated list of cases."""
import os, sys, time, hashlib, json, multiprocessing, itertools, traceback

from vlib import cli

_runner = None
_judge = None
_base = None
_env = None


def _init(base, env, judge_mod):
    global _runner, _judge, _base, _env
    _base = os.path.join(base, "w%d" % os.getpid())
    _env = env
    _runner = cli.Runner(_base, env=env)
    if env and "TZ" in env:
        # the reference renderer in this worker must use the same zone as the tool
        import time
        os.environ["TZ"] = env["TZ"]
        time.tzset()
    import importlib
    _judge = importlib.import_module(judge_mod)


def _h(*parts):
    m = hashlib.blake2b(digest_size=8)
    for p in parts:
        m.update(p if isinstance(p, bytes) else repr(p).encode())
        m.update(b"\0")
    return int.from_bytes(m.digest(), "little")


def _work(args):
    space, chunk = args
    out = {"n": 0, "ops": 0, "outcomes": set(), "nontrivial": set(), "states": set(), "viol": [], "samples": [], "errors": []}
    for case in chunk:
        try:
            res = _judge.run_case(_runner, space, case)
        except Exception as ex:  # harness error
            out["errors"].append("%s: %r %s" % (space, ex, traceback.format_exc()[-600:]))
            continue
        out["n"] += 1
        out["ops"] += res.get("transitions", 1)
        for s in res.get("states", ()):
            out["states"].add(s)
        out["outcomes"].add(res.get("outcome", 0))
        if res.get("nontrivial"):
            out["nontrivial"].add(_h(space, json.dumps(case, sort_keys=True, default=str)))
        for site, msg in res.get("violations", ()):
            if len(out["viol"]) < 50:
                out["viol"].append((site, _judge.describe(space, case), msg, {"kind": "cli", "module": _judge.__name__, "space": space, "case": case}))
        if len(out["samples"]) < 1:
            out["samples"].append(_judge.describe(space, case))
    return out


def chunks(it, n):
    it = iter(it)
    while True:
        c = list(itertools.islice(it, n))
        if not c:
            return
        yield c


def run_space(ctx, judge_mod, space, cases, env=None, chunk=64, workers=None):
    """cases: an iterable of JSON-serialisable case dicts (the complete space)"""
    workers = workers or min(16, os.cpu_count() or 1)
    t0 = time.time()
    rec = {"space": space, "engine": "cli_runner", "evaluations": 0, "transitions": 0, "violations": 0, "truncated": False}
    if time.time() > ctx.deadline:
        ctx.exhaustive = False
        ctx.spaces.append({"space": space, "skipped": "deadline"})
        return rec
    base = os.path.join(ctx.scratch, "cli")
    os.makedirs(base, exist_ok=True)
    outcomes, nontriv, states = set(), set(), set()
    pool = multiprocessing.Pool(workers, initializer=_init, initargs=(base, env, judge_mod))
    try:
        for out in pool.imap_unordered(_work, ((space, c) for c in chunks(cases, chunk))):
            rec["evaluations"] += out["n"]
            rec["transitions"] += out["ops"]
            outcomes |= out["outcomes"]
            nontriv |= out["nontrivial"]
            states |= out["states"]
            for e in out["errors"]:
                ctx.harness_errors.append(e)
            for site, desc, msg, replay in out["viol"]:
                rec["violations"] += 1
                ctx.add_violation(site, desc, msg, replay)
            for s in out["samples"]:
                if len([x for x in ctx.samples if x.get("space") == space]) < 3:
                    ctx.samples.append({"space": space, "case": s[:600]})
            if time.time() > ctx.deadline:
                rec["truncated"] = True
                ctx.exhaustive = False
                pool.terminate()
                break
    finally:
        pool.close()
        pool.terminate()
        pool.join()
    rec["wall_s"] = round(time.time() - t0, 2)
    ctx.extra["outcomes"] = ctx.extra.get("outcomes", 0) + len(outcomes)
    ctx.extra["nontrivial"] = ctx.extra.get("nontrivial", 0) + len(nontriv)
    ctx.extra_states += len(states) + len(outcomes)
    ctx.spaces.append(rec)
    return rec


def replay_case(rep, env=None):
    """re-run one CLI case alone; returns True when a violation of the same site shows again"""
    import importlib, tempfile, shutil
    mod = importlib.import_module(rep["module"])
    base = tempfile.mkdtemp(prefix="lhasa-verif-replay.", dir="/dev/shm" if os.path.isdir("/dev/shm") else None)
    r = cli.Runner(base, env=env if env is not None else getattr(mod, "ENV", {}).get(rep["space"]))
    try:
        res = mod.run_case(r, rep["space"], rep["case"])
    finally:
        r.close()
        shutil.rmtree(base, ignore_errors=True)
    for site, msg in res.get("violations", ()):
        if site == rep.get("site"):
            return True
    return False
