"""Common driver: runs explorer spaces on 16 shards with crash containment, collects counters,
matches violations against known_findings.txt, replays before reporting, writes evidence."""
import os, sys, json, time, subprocess, re, shutil, struct, tempfile, hashlib, signal

VERIF = os.path.dirname(os.path.dirname(os.path.abspath(__file__)))
sys.path.insert(0, os.path.join(VERIF, "tools"))
import build  # noqa: E402

NCPU = min(16, os.cpu_count() or 1)

ASAN_ENV = {
    "ASAN_OPTIONS": "detect_leaks=0:abort_on_error=0:exitcode=86:allocator_may_return_null=1:"
                    "detect_stack_use_after_return=0:quarantine_size_mb=16:symbolize=1:max_allocation_size_mb=4096",
    "UBSAN_OPTIONS": "print_stacktrace=1:halt_on_error=1:exitcode=87",
    "TZ": "UTC", "LC_ALL": "C",
}


def scratch_root():
    base = "/dev/shm" if os.path.isdir("/dev/shm") and os.access("/dev/shm", os.W_OK) else os.path.join(VERIF, "build", "scratch")
    d = os.path.join(base, "lhasa-verif.%d" % os.getpid())
    os.makedirs(d, exist_ok=True)
    return d


def trap_site(cmd, env, cwd, index):
    """A bounds trap (-fsanitize=local-bounds compiles to ud2 -> SIGILL) or a plain SIGSEGV carries no report:
    re-run the single case under gdb to learn the faulting function."""
    if index is None or index < 0:
        return None
    c = [a for a in cmd]
    # replace sharding by --only
    out = []
    skip = 0
    for i, a in enumerate(c):
        if skip:
            skip -= 1
            continue
        if a in ("--shard", "--resume", "--cur", "--hashes", "--deadline"):
            skip = 1
            continue
        out.append(a)
    out += ["--only", str(index)]
    try:
        r = subprocess.run(["gdb", "-batch", "-ex", "run", "-ex", "bt 8", "--args"] + out, stdout=subprocess.PIPE,
                           stderr=subprocess.STDOUT, env=env, cwd=cwd, timeout=300)
    except Exception:
        return None
    t = r.stdout.decode(errors="replace")
    sig = re.search(r"Program received signal (\w+)", t)
    f = re.search(r"#\d+\s+(?:0x[0-9a-f]+ in )?(\w+) \([^\n]*\) at [^\n]*/(?:lib|src)/(\w+\.c):\d+", t)
    if sig and f:
        return "%s:%s:%s" % ("bounds-trap" if sig.group(1) == "SIGILL" else sig.group(1).lower(), f.group(2), f.group(1))
    return None


def crash_site(stderr_text, rc):
    """Derive a stable site key from a sanitizer report / signal."""
    m = re.search(r"ERROR: AddressSanitizer: ([\w-]+)", stderr_text)
    if m:
        kind = m.group(1)
        # first frame inside lib/ or src/ of the project
        f = re.search(r"#\d+ 0x[0-9a-f]+ in (\w+) [^\n]*/(?:lib|src)/(\w+\.c)", stderr_text)
        if f:
            return "asan:%s:%s:%s" % (kind, f.group(2), f.group(1))
        return "asan:%s" % kind
    m = re.search(r"(\w+\.c):\d+:\d+: runtime error: ([^\n]*)", stderr_text)
    if m:
        msg = re.sub(r"-?\d+", "N", m.group(2))
        msg = re.sub(r"[^\w]+", "-", msg)[:40]
        return "ubsan:%s:%s" % (m.group(1), msg)
    m = re.search(r"MemorySanitizer: ([\w-]+)", stderr_text)
    if m:
        f = re.search(r"#\d+ 0x[0-9a-f]+ in (\w+) [^\n]*/(?:lib|src)/(\w+\.c)", stderr_text)
        return "msan:%s:%s" % (m.group(1), (f.group(2) + ":" + f.group(1)) if f else "?")
    m = re.search(r"ThreadSanitizer: ([\w -]+)", stderr_text)
    if m:
        return "tsan:%s" % m.group(1).strip().replace(" ", "-")
    if rc < 0:
        if -rc in (signal.SIGVTALRM, signal.SIGALRM, signal.SIGXCPU):
            return "hang:cpu-limit"
        return "signal:%d" % (-rc)
    return "exit:%d" % rc


class Violation:
    def __init__(self, site, desc, msg, replay):
        self.site, self.desc, self.msg, self.replay = site, desc, msg, replay


class Ctx:
    def __init__(self, pid, tier, budget_s):
        self.pid = pid
        self.tier = tier
        self.thorough = tier == "thorough"
        self.seed = int(os.environ.get("VERIF_SEED", "0") or 0)
        self.t0 = time.time()
        self.deadline = self.t0 + budget_s
        self.scratch = scratch_root()
        self.spaces = []
        self.violations = []      # Violation
        self.harness_errors = []
        self.samples = []
        self.assumptions = []
        self.notes = {}
        self.exhaustive = True
        self.hashfiles = {"states": [], "outcomes": [], "nontriv": []}
        self.extra_states = 0     # counted by python-side explorers
        self.extra = {}

    # ---------------------------------------------------------------- C explorer spaces
    def run_space(self, binary, space, args=(), shards=None, cpu_limit=20, env=None, stall_s=600,
                  min_nontrivial=1):
        """Run one space of a C explorer on all shards.  Returns the aggregated record."""
        shards = shards or NCPU
        stall_s = max(stall_s, int(cpu_limit * 1.5) + 60)     # a case may legitimately use its whole CPU allowance
        if time.time() > self.deadline:
            self.exhaustive = False
            self.spaces.append({"space": space, "skipped": "deadline"})
            return None
        e = dict(os.environ)
        e.update(ASAN_ENV)
        if env:
            e.update(env)
        base = os.path.join(self.scratch, "%s.%d" % (re.sub(r"\W", "_", space), len(self.spaces)))
        rec = {"space": space, "binary": os.path.basename(binary), "args": list(args), "evaluations": 0,
               "enumerated": 0, "transitions": 0, "violations": 0, "truncated": False, "saturated": False,
               "crashes": 0, "shards": shards}
        t0 = time.time()
        procs = {}

        def launch(i, resume):
            cur = "%s.cur.%d" % (base, i)
            cmd = [binary, "--space", space, "--shard", "%d/%d" % (i, shards), "--cur", cur,
                   "--hashes", "%s.h.%d.%d" % (base, i, resume), "--deadline", "%f" % self.deadline,
                   "--cpu-limit", str(cpu_limit), "--resume", str(resume)]
            if self.thorough:
                cmd.append("--thorough")
            cmd += list(args)
            out = open("%s.out.%d.%d" % (base, i, resume), "wb")
            err = open("%s.err.%d.%d" % (base, i, resume), "wb")
            p = subprocess.Popen(cmd, stdout=out, stderr=err, env=e, cwd=self.scratch)
            procs[i] = (p, cmd, cur, out.name, err.name, resume)
            out.close(); err.close()

        for i in range(shards):
            launch(i, 0)
        done = []
        site_cache = {}
        last_check, last_idx, last_move = {}, {}, {}
        restarts = 0
        last_progress = time.time()
        while procs:
            time.sleep(0.02)
            for i in list(procs):
                p, cmd, cur, outn, errn, resume = procs[i]
                rc = p.poll()
                if rc is None:
                    # a worker is only given up when its case index has not moved for stall_s (blocked, not busy:
                    # busy loops are ended by the per-case CPU limit)
                    if time.time() - last_check.get(i, 0) > 15:
                        last_check[i] = time.time()
                        try:
                            idx_now = struct.unpack("<q", open(cur, "rb").read(8))[0]
                        except Exception:
                            idx_now = None
                        if idx_now != last_idx.get(i):
                            last_idx[i] = idx_now
                            last_move[i] = time.time()
                        elif time.time() - last_move.get(i, time.time()) > stall_s:
                            p.kill()
                    continue
                last_progress = time.time()
                del procs[i]
                out = open(outn, "rb").read().decode(errors="replace")
                errt = open(errn, "rb").read().decode(errors="replace")
                finished = self._parse(out, rec, binary, space, args, i, resume, shards)
                if not finished:
                    # crashed inside a case: attribute it
                    idx, desc = -1, "?"
                    try:
                        raw = open(cur, "rb").read()
                        idx = struct.unpack("<q", raw[:8])[0]
                        desc = raw[16:].split(b"\0")[0].decode(errors="replace")
                    except Exception:
                        pass
                    site = crash_site(errt, rc)
                    if site.startswith("signal:"):
                        # the first few crashes of a space are located under gdb; later ones of the same signal reuse the answer
                        raw = site
                        if site_cache.get(raw, (None, 0))[1] < 6:
                            g = trap_site(cmd, e, self.scratch, idx)
                            site_cache[raw] = (g or site_cache.get(raw, (None, 0))[0], site_cache.get(raw, (None, 0))[1] + 1)
                            site = g or raw
                        else:
                            site = site_cache[raw][0] or raw
                    rec["crashes"] += 1
                    rec["violations"] += 1
                    self._add_violation(site, binary, space, args, idx, desc,
                                        "crash rc=%d: %s" % (rc, errt[:1500]), shard="%d/%d" % (i, shards), resume=resume)
                    restarts += 1
                    if idx < resume:
                        # died before reaching its first case: a harness problem, not attributable to a case
                        self.harness_errors.append("%s: worker %d died outside any case: %s" % (space, i, errt[:600]))
                        rec["truncated"] = True
                    elif restarts < 400:
                        launch(i, idx + 1)
                    else:
                        rec["truncated"] = True
                for suf in self.hashfiles:
                    f = "%s.h.%d.%d.%s" % (base, i, resume, suf)
                    if os.path.exists(f):
                        self.hashfiles[suf].append(f)
                for f in (outn, errn):
                    try:
                        os.unlink(f)
                    except OSError:
                        pass
        rec["wall_s"] = round(time.time() - t0, 2)
        if rec["truncated"]:
            self.exhaustive = False
        self.spaces.append(rec)
        return rec

    def _parse(self, out, rec, binary, space, args, shard, resume, shards):
        finished = False
        for line in out.splitlines():
            if line.startswith("SAMPLE "):
                if len([s for s in self.samples if s.get("space") == space]) < 3:
                    self.samples.append({"space": space, "case": line[7:][:600]})
            elif line.startswith("VIOL "):
                m = re.match(r"VIOL index=(-?\d+) site=(\S+) \| (.*?) \| (.*)$", line)
                if m:
                    self._add_violation(m.group(2), binary, space, args, int(m.group(1)), m.group(3), m.group(4),
                                        shard="%d/%d" % (shard, shards), resume=resume)
            elif line.startswith("HARNESS "):
                self.harness_errors.append("%s: %s" % (space, line[8:]))
            elif line.startswith("NOTE "):
                k, _, v = line[5:].partition("=")
                self.notes.setdefault(space, {})[k] = v
            elif line.startswith("DONE "):
                finished = True
                kv = dict(x.split("=", 1) for x in line[5:].split() if "=" in x)
                rec["evaluations"] += int(kv["evaluations"])
                rec["enumerated"] = max(rec["enumerated"], int(kv["enumerated"]))
                rec["transitions"] += int(kv["transitions"])
                rec["violations"] += int(kv["violations"])
                if kv["truncated"] != "0":
                    rec["truncated"] = True
                if kv["saturated"] != "0":
                    rec["saturated"] = True
        return finished

    def _add_violation(self, site, binary, space, args, idx, desc, msg, shard=None, resume=0):
        rep = {"kind": "explorer", "explorer": os.path.basename(binary).rsplit("-", 1)[0],
               "flavour": os.path.basename(binary).rsplit("-", 1)[1],
               "space": space, "args": list(args), "index": idx,
               "thorough": self.thorough, "case": desc, "site": site}
        if shard:
            # the cases this worker process ran before the failing one (same shard, from 'resume'): replayed as a whole when the
            # case alone does not fail, i.e. when the failure needs state left behind by earlier cases of the same process
            rep["shard"] = shard
            rep["resume"] = resume
        self.violations.append(Violation(site, desc, msg, rep))

    def add_violation(self, site, desc, msg, replay):
        replay = dict(replay)
        replay["site"] = site
        self.violations.append(Violation(site, desc, msg, replay))

    # ---------------------------------------------------------------- finishing
    def _union(self, files):
        if not files:
            return 0
        hu = build.ensure_explorer("hunion", "plain", ref=False, lib=False)
        lst = os.path.join(self.scratch, "hu.lst")
        with open(lst, "w") as f:
            f.write("\n".join(files) + "\n")
        r = subprocess.run([hu, lst], stdout=subprocess.PIPE)
        try:
            return int(r.stdout.decode().strip())
        except ValueError:
            return 0

    def finish(self, level="model_checking", rule="", technique_note="", replay_fn=None):
        known = load_known(self.pid)
        # group by site
        by_site = {}
        for v in self.violations:
            by_site.setdefault(v.site, []).append(v)
        reported = []
        known_hits = []
        repdir = os.environ.get("VERIF_REPLAY_DIR") or os.path.join(VERIF, "replays")
        os.makedirs(os.path.join(repdir, self.pid), exist_ok=True)
        n = 0
        for site, vs in sorted(by_site.items()):
            k = match_known(known, site)
            if k:
                known_hits.append((site, k, len(vs)))
                continue
            v = vs[0]
            # replay once more, alone, before reporting
            ok = True
            if replay_fn is not None:
                try:
                    ok = replay_fn(v.replay)
                except Exception as ex:  # noqa
                    ok = None
                    self.harness_errors.append("replay failed to run for site %s: %r" % (site, ex))
            if ok is False:
                self.harness_errors.append("violation at site %s did not reproduce on replay: %s" % (site, v.desc[:300]))
                continue
            n += 1
            path = os.path.join(os.path.relpath(repdir, VERIF) if repdir.startswith(VERIF) else repdir, self.pid, "%d.json" % n)
            with open(os.path.join(repdir, self.pid, "%d.json" % n), "w") as f:
                json.dump({"property": self.pid, "site": site, "case": v.desc, "message": v.msg[:3000],
                           "count_same_site": len(vs), "replay": v.replay}, f, indent=1)
            reported.append((site, path, v))
        states = self._union(self.hashfiles["states"]) + self.extra_states
        outcomes = self._union(self.hashfiles["outcomes"]) + self.extra.get("outcomes", 0)
        nontriv = self._union(self.hashfiles["nontriv"]) + self.extra.get("nontrivial", 0)
        evaluations = sum(s.get("evaluations", 0) for s in self.spaces)
        transitions = sum(s.get("transitions", 0) for s in self.spaces)
        cov = {
            "states": states,
            "transitions": transitions,
            "traces_validated_against_impl": evaluations,
            "evaluations": evaluations,
            "distinct_nontrivial": nontriv,
            "distinct_final_observations": outcomes,
            "rule": rule,
            "samples": self.samples[:12] or [{"none": "no case ran"}],
            "exhaustive": bool(self.exhaustive and not any(s.get("truncated") for s in self.spaces)),
            "spaces": self.spaces,
            "known_findings_hit": [{"site": s, "entry": k, "cases": c} for s, k, c in known_hits],
            "harness_errors": self.harness_errors[:20],
            "notes": self.notes,
        }
        cov.update({k: v for k, v in self.extra.items() if k not in ("outcomes", "nontrivial")})
        ev = {
            "property_id": self.pid, "tier": self.tier, "seed": self.seed, "level": level,
            "coverage": cov,
            "assumptions": self.assumptions,
            "wall_s": round(time.time() - self.t0, 2),
            "violations": len(reported),
        }
        evdir = os.environ.get("VERIF_EVIDENCE_DIR") or os.path.join(VERIF, "evidence")
        os.makedirs(evdir, exist_ok=True)
        tmp = os.path.join(evdir, ".%s.tmp" % self.pid)
        with open(tmp, "w") as f:
            json.dump(ev, f, indent=1, default=str)
        os.replace(tmp, os.path.join(evdir, "%s.json" % self.pid))
        shutil.rmtree(self.scratch, ignore_errors=True)
        for s in self.spaces:
            print("space %-28s evaluations=%-9s transitions=%-10s viol=%s%s %ss" % (
                s.get("space"), s.get("evaluations", "-"), s.get("transitions", "-"), s.get("violations", "-"),
                " TRUNCATED" if s.get("truncated") or s.get("skipped") else "", s.get("wall_s", "-")))
        print("property=%s tier=%s evaluations=%d states=%d transitions=%d distinct_nontrivial=%d outcomes=%d exhaustive=%s wall=%.1fs"
              % (self.pid, self.tier, evaluations, states, transitions, nontriv, outcomes, cov["exhaustive"], time.time() - self.t0))
        for site, k, c in known_hits:
            print("KNOWN-FINDING: property=%s site=%s (%d cases) %s" % (self.pid, site, c, k))
        for site, path, v in reported:
            print("VIOLATION property=%s replay=%s site=%s :: %s :: %s" % (self.pid, path, site, v.desc[:200], v.msg[:300].replace("\n", " ")))
        if reported:
            return 1
        if self.harness_errors:
            for h in self.harness_errors[:10]:
                print("HARNESS-ERROR: %s" % h)
            return 2
        if evaluations == 0:
            print("HARNESS-ERROR: nothing was explored")
            return 2
        return 0


def load_known(pid):
    out = []
    p = os.path.join(VERIF, "known_findings.txt")
    if not os.path.exists(p):
        return out
    for line in open(p):
        line = line.strip()
        if not line.startswith("known:"):
            continue
        m = re.match(r"known:\s+property=(\S+)\s+site=(\S+)\s*(.*)$", line)
        if m and m.group(1) == pid:
            out.append((m.group(2), m.group(3)))
    return out


def match_known(known, site):
    for k, text in known:
        if k == site:
            return "site=%s %s" % (k, text)
    return None


def replay_explorer(rep, flavour_override=None, quiet=False):
    """Re-run one case of a C explorer alone; when it does not fail alone and the record names the worker's shard, re-run
    that worker's history up to the case (state left behind by earlier cases of one process is part of the execution).
    Returns True when the violation shows again."""
    binary = build.ensure_explorer(rep["explorer"], flavour_override or rep["flavour"], **EXPLORER_KW.get(rep["explorer"], {}))
    e = dict(os.environ)
    e.update(ASAN_ENV)
    sc = scratch_root()

    def once(sel, limit):
        cmd = [binary, "--space", rep["space"]] + sel + ["--cpu-limit", "120"] + list(rep["args"])
        if rep.get("thorough"):
            cmd.append("--thorough")
        try:
            r = subprocess.run(cmd, stdout=subprocess.PIPE, stderr=subprocess.PIPE, env=e, cwd=sc, timeout=limit)
        except subprocess.TimeoutExpired:
            return False
        out = r.stdout.decode(errors="replace")
        err = r.stderr.decode(errors="replace")
        if not quiet:
            sys.stdout.write(out[-6000:])
            sys.stdout.write(err[:4000])
        if "DONE " not in out:
            # crashed again: same class of crash is a reproduction (trap sites were derived under gdb)
            return r.returncode != 0
        for line in out.splitlines():
            if line.startswith("VIOL ") and ("site=%s " % rep["site"]) in line:
                return True
        return False

    if once(["--only", str(rep["index"])], 900):
        return True
    if rep.get("shard") and rep.get("index", -1) >= 0:
        if not quiet:
            print("replay: the case alone does not fail; replaying the history of its worker (shard %s from case %s up to it)" % (rep["shard"], rep.get("resume", 0)))
        return once(["--shard", rep["shard"], "--resume", str(rep.get("resume", 0)), "--upto", str(rep["index"])], 3600)
    return False


# keyword arguments of build.ensure_explorer per explorer (filled by the property modules)
EXPLORER_KW = {}
