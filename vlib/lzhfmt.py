"""Independent Python model of the LHA container format: header parser (levels 0-3) and builder.
Written from the format descriptions (DESIGN.md appendix B), not from lhasa's code; validated against
the recorded header dumps of the corpus by ./check selftest."""
import struct


def crc16(data, crc=0):
    for b in data:
        crc ^= b
        for _ in range(8):
            crc = (crc >> 1) ^ 0xA001 if crc & 1 else crc >> 1
    return crc


class Hdr:
    """raw parse result (no normalisation)"""
    def __init__(self):
        self.level = None
        self.method = b""
        self.packed = 0          # as stored
        self.size = 0
        self.time_raw = 0
        self.attr = 0
        self.crc = 0
        self.os = None
        self.name = None         # in-header name bytes (level 0/1)
        self.area = b""          # level-0 extended area / level-1 bytes between OS and next-size
        self.ext = []            # list of (type, data bytes)
        self.header_len = 0      # total bytes of header incl. extended headers
        self.data_off = 0
        self.data_len = 0        # bytes of member data following
        self.raw = b""

    def __repr__(self):
        return "Hdr(L%s %r name=%r packed=%d size=%d crc=%04x ext=%r)" % (
            self.level, self.method, self.name, self.packed, self.size, self.crc, [(t, len(d)) for t, d in self.ext])


def parse_header(buf, off=0):
    """Parse one header at buf[off:].  Returns Hdr or None (end / invalid).  Performs the integrity
    checks the formats define (checksum for level 0/1; lengths; common CRC for headers carrying one)."""
    b = buf[off:]
    if len(b) < 21:
        return None
    h = Hdr()
    level = b[20]
    h.level = level
    if level in (0, 1):
        hs = b[0]
        total = hs + 2
        if hs == 0 or len(b) < total:
            return None
        minlen = 22 if level == 0 else 25
        if total < minlen + 2:
            pass
        if (sum(b[2:total]) & 0xFF) != b[1]:
            return None
        h.method = bytes(b[2:7])
        h.packed, h.size, h.time_raw = struct.unpack_from("<III", b, 7)
        h.attr = b[19]
        nl = b[21]
        if level == 0:
            if 22 + nl + 2 > total:
                return None
            h.name = bytes(b[22:22 + nl])
            h.crc = struct.unpack_from("<H", b, 22 + nl)[0]
            h.area = bytes(b[24 + nl:total])
            h.header_len = total
            h.data_len = h.packed
        else:
            if 22 + nl + 5 > total:
                return None
            h.name = bytes(b[22:22 + nl])
            h.crc = struct.unpack_from("<H", b, 22 + nl)[0]
            h.os = b[24 + nl]
            h.area = bytes(b[25 + nl:total - 2])
            nxt = struct.unpack_from("<H", b, total - 2)[0]
            p = total
            extbytes = 0
            while nxt != 0:
                if nxt < 3 or len(b) < p + nxt:
                    return None
                h.ext.append((b[p], bytes(b[p + 1:p + nxt - 2])))
                extbytes += nxt
                p += nxt
                nxt = struct.unpack_from("<H", b, p - 2)[0]
            h.header_len = p
            if extbytes > h.packed:
                return None
            h.data_len = h.packed - extbytes
    elif level == 2:
        total = struct.unpack_from("<H", b, 0)[0]
        if total < 26 or len(b) < total:
            return None
        h.method = bytes(b[2:7])
        h.packed, h.size, h.time_raw = struct.unpack_from("<III", b, 7)
        h.attr = b[19]
        h.crc = struct.unpack_from("<H", b, 21)[0]
        h.os = b[23]
        if h.os == 0x4B:
            # OS-9/68k LHA writes level-2 headers whose length field is two bytes short (corpus: lha_osk_201/h2_*)
            total += 2
            if len(b) < total:
                return None
        nxt = struct.unpack_from("<H", b, 24)[0]
        p = 26
        while nxt != 0:
            if nxt < 3 or p + nxt > total:
                return None
            h.ext.append((b[p], bytes(b[p + 1:p + nxt - 2])))
            p += nxt
            nxt = struct.unpack_from("<H", b, p - 2)[0]
        h.header_len = total
        h.data_len = h.packed
    elif level == 3:
        if struct.unpack_from("<H", b, 0)[0] != 4 or len(b) < 32:
            return None
        h.method = bytes(b[2:7])
        h.packed, h.size, h.time_raw = struct.unpack_from("<III", b, 7)
        h.attr = b[19]
        h.crc = struct.unpack_from("<H", b, 21)[0]
        h.os = b[23]
        total = struct.unpack_from("<I", b, 24)[0]
        if total < 32 or len(b) < total:
            return None
        nxt = struct.unpack_from("<I", b, 28)[0]
        p = 32
        while nxt != 0:
            if nxt < 5 or p + nxt > total:
                return None
            h.ext.append((b[p], bytes(b[p + 1:p + nxt - 4])))
            p += nxt
            nxt = struct.unpack_from("<I", b, p - 4)[0]
        h.header_len = total
        h.data_len = h.packed
    else:
        return None
    h.raw = bytes(b[:h.header_len])
    # common CRC
    commons = [d for t, d in h.ext if t == 0 and len(d) >= 2]
    if commons:
        # position of the CRC field: locate each type-0 ext header's data start in raw
        raw = bytearray(h.raw)
        want = None
        p = {1: None}.get(level)
        pos = _ext_positions(h)
        for (t, d), q in zip(h.ext, pos):
            if t == 0 and len(d) >= 2:
                want = struct.unpack_from("<H", d, 0)[0]
                raw[q] = 0
                raw[q + 1] = 0
        if crc16(raw) != want:
            return None
    h.data_off = off + h.header_len
    return h


def _ext_positions(h):
    """offset within h.raw of each extended header's data"""
    out = []
    if h.level == 1:
        p = h.raw[0] + 2
        szw = 2
    elif h.level == 2:
        p = 26
        szw = 2
    else:
        p = 32
        szw = 4
    for t, d in h.ext:
        out.append(p + 1)
        p += 1 + len(d) + szw
    return out


def members(buf):
    """iterate (Hdr) over an archive starting at offset 0 (no SFX scan)"""
    off = 0
    out = []
    while off < len(buf):
        if buf[off] == 0 and (len(buf) - off < 21 or buf[off + 20] < 2):
            break
        h = parse_header(buf, off)
        if h is None:
            break
        out.append(h)
        off = h.data_off + h.data_len
    return out


# ---------------------------------------------------------------------------- builder

def dos_time(y, mo, d, hh, mm, ss):
    return ((y - 1980) << 25) | (mo << 21) | (d << 16) | (hh << 11) | (mm << 5) | (ss // 2)


def ext_hdr(t, data, level):
    szw = 4 if level == 3 else 2
    return bytes([t]) + bytes(data), szw


def build_header(level, method=b"-lh0-", packed=0, size=0, time=0, attr=0x20, crc=0, os=ord("U"),
                 name=b"", area=b"", exts=(), common_crc=False, fix=True, pad=False, fake_packed=None):
    """Build header bytes.  exts: list of (type, data).  For level 1 `packed` is the member data size; the
    extended header bytes are added to the stored field.  common_crc adds a type-0 header first and fills it."""
    if fake_packed is not None:
        packed = fake_packed      # header-only members (listing tests): the field is stored, no data follows
    exts = list(exts)
    if common_crc:
        exts = [(0, b"\0\0")] + exts
    szw = 4 if level == 3 else 2
    chain = b""
    sizes = []
    for t, d in exts:
        sizes.append(1 + len(d) + szw)
    # each ext header: type, data, next size
    for i, (t, d) in enumerate(exts):
        nxt = sizes[i + 1] if i + 1 < len(exts) else 0
        chain += bytes([t]) + bytes(d) + nxt.to_bytes(szw, "little")
    first = sizes[0] if exts else 0
    if level == 0:
        body = method + struct.pack("<III", packed, size, time) + bytes([attr, 0, len(name)]) + name + struct.pack("<H", crc) + area
        hdr = bytes([len(body), sum(body) & 0xFF]) + body
        return hdr
    if level == 1:
        body = method + struct.pack("<III", (packed + len(chain)) & 0xFFFFFFFF, size, time) + bytes([attr, 1, len(name)]) + name \
            + struct.pack("<H", crc) + bytes([os]) + area + struct.pack("<H", first)
        hdr = bytearray(bytes([len(body), 0]) + body + chain)
        if common_crc:
            q = 2 + len(body) + 1
            c = crc16(hdr)
            hdr[q:q + 2] = struct.pack("<H", c)
        hdr[1] = sum(hdr[2:2 + len(body)]) & 0xFF
        return bytes(hdr)
    if level == 2:
        body = method + struct.pack("<III", packed, size, time) + bytes([attr, 2]) + struct.pack("<H", crc) + bytes([os]) + struct.pack("<H", first) + chain
        total = 2 + len(body)
        if pad or (total & 0xFF) == 0:
            body += b"\0"
            total += 1
        hdr = bytearray(struct.pack("<H", total) + body)
        if common_crc:
            q = 26 + 1
            hdr[q:q + 2] = struct.pack("<H", crc16(hdr))
        return bytes(hdr)
    if level == 3:
        body = method + struct.pack("<III", packed, size, time) + bytes([attr, 3]) + struct.pack("<H", crc) + bytes([os])
        total = 2 + len(body) + 4 + 4 + len(chain)
        hdr = bytearray(struct.pack("<H", 4) + body + struct.pack("<II", total, first) + chain)
        if common_crc:
            q = 32 + 1
            hdr[q:q + 2] = struct.pack("<H", crc16(hdr))
        return bytes(hdr)
    raise ValueError(level)


def unix_area(time, perm, uid, gid, minor=0):
    """level-0 Unix extended area"""
    return b"U" + bytes([minor]) + struct.pack("<IHHH", time, perm, uid, gid)
