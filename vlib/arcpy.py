"""Python-side archive entries for the E4 checks (level 0/1/2, Unix metadata), on top of lzhfmt."""
import struct
from vlib import lzhfmt

T0 = 1262304000


def _split(full):
    i = full.rfind(b"/")
    return (full[:i + 1], full[i + 1:]) if i >= 0 else (b"", full)


def entry(kind, path=b"", name=b"", data=b"", target=None, level=2, perms=None, uid=1000, gid=1000, mtime=T0, method=b"-lh0-", blob=None,
          raw_path=None, raw_name=None, os_=ord("U"), unix=True):
    """kind: 'f' file, 'd' directory, 'l' link.  path ends with '/' (or is empty).  blob: (plain, stream) for non-stored methods.
    raw_path / raw_name: literal extended-header payloads (hostile forms)."""
    if perms is None:
        perms = {"f": 0o100644, "d": 0o040755, "l": 0o120777}[kind]
    if kind == "f":
        plain, stream = (data, data) if blob is None else blob
        m, size, packed, crc = method, len(plain), stream, lzhfmt.crc16(plain)
    else:
        m, size, packed, crc = b"-lhd-", 0, b"", 0
    full = path + name + (b"|" + target if kind == "l" else b"")
    if level <= 1:
        nm = raw_name if raw_name is not None else (full if kind == "l" else full.replace(b"/", b"\\"))
        if level == 0:
            area = lzhfmt.unix_area(mtime, perms, uid, gid) if unix else b""
            return lzhfmt.build_header(0, m, packed=len(packed), size=size, crc=crc, name=nm, area=area, time=lzhfmt.dos_time(2010, 1, 1, 0, 0, 0)) + packed
        exts = [(0x50, struct.pack("<H", perms)), (0x51, struct.pack("<HH", gid, uid)), (0x54, struct.pack("<I", mtime))] if unix else []
        return lzhfmt.build_header(1, m, packed=len(packed), size=size, crc=crc, name=nm, exts=exts, os=os_, time=lzhfmt.dos_time(2010, 1, 1, 0, 0, 0)) + packed
    p, n = _split(full)
    exts = []
    if raw_path is not None:
        if raw_path:
            exts.append((2, raw_path))
    elif p:
        exts.append((2, p.replace(b"/", b"\xff")))
    if raw_name is not None:
        if raw_name:
            exts.append((1, raw_name))
    elif n:
        exts.append((1, n))
    if unix:
        exts += [(0x50, struct.pack("<H", perms)), (0x51, struct.pack("<HH", gid, uid))]
    return lzhfmt.build_header(level, m, packed=len(packed), size=size, crc=crc, time=mtime, exts=exts, os=os_) + packed
