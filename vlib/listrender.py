"""Independent renderer of the Unix-LHA list layout (DESIGN.md appendix D), validated against the listings
recorded from the original Unix LHA tool (test/output/**-l/-lv/-v/-vv.txt) by ./check selftest."""
import struct, time, fnmatch

MONTHS = ["Jan", "Feb", "Mar", "Apr", "May", "Jun", "Jul", "Aug", "Sep", "Oct", "Nov", "Dec"]
OSNAMES = {ord('M'): "[MS-DOS]", ord('w'): "[Win9x]", ord('W'): "[WinNT]", ord('U'): "[Unix]", ord('2'): "[OS/2]", ord('C'): "[CP/M]",
           ord('m'): "[Mac OS]", ord('J'): "[Java]", ord('F'): "[FLEX]", ord('R'): "[Runser]", ord('T'): "[TownsOS]", ord('9'): "[OS-9]",
           ord('K'): "[OS-9/68K]", ord('3'): "[OS-386]", ord('H'): "[Human68K]", ord('a'): "[Atari]", ord('A'): "[Amiga]", ord(' '): "[LHARK]", 0: "[generic]"}


def f32(x):
    return struct.unpack("f", struct.pack("f", x))[0]


def safe(b):
    """C-string view, non-printables replaced"""
    b = b.split(b"\0")[0]
    return bytes(c if 0x20 <= c < 0x7f else 0x3f for c in b)


def ratio(c, u):
    if u > 0:
        return f32(f32(f32(float(c)) * f32(100.0)) / f32(float(u)))
    return 100.0


class Renderer:
    def __init__(self, now, localtime=time.gmtime):
        self.now = now
        self.lt = localtime

    def perm(self, h):
        m = h["method"]
        if h["flags"] & 16:
            s = b"-" if m != b"-lhd-" else b"d"
            for i, ch in enumerate(b"sewrewr"):
                s += bytes([ch]) if h["os9_perms"] & (1 << (6 - i)) else b"-"
            return s + b"  "
        if h["flags"] & 1:
            s = b"-" if m != b"-lhd-" else (b"l" if h["target"] is not None else b"d")
            for i, ch in enumerate(b"rwxrwxrwx"):
                s += bytes([ch]) if h["unix_perms"] & (1 << (8 - i)) else b"-"
            return s
        return ("%-10s" % OSNAMES.get(h["os_type"], "[unknown]")).encode()

    def uidgid(self, h):
        if h["flags"] & 2:
            return ("%5i/%-5i" % (h["uid"], h["gid"])).encode()
        return b" " * 11

    def ratio_col(self, h):
        if h["method"] == b"-lhd-":
            return b"******"
        return ("%5.1f%%" % ratio(h["compressed_length"], h["length"])).encode()

    def stamp(self, t):
        if t == 0:
            return b" " * 12
        ts = self.lt(t)
        s = "%s %2d " % (MONTHS[ts.tm_mon - 1], ts.tm_mday)
        if t > self.now - 6 * 30 * 24 * 60 * 60:
            s += "%02i:%02i" % (ts.tm_hour, ts.tm_min)
        else:
            s += " %04i" % ts.tm_year
        return s.encode()

    def fullstamp(self, t):
        if t == 0:
            return b" " * 19
        ts = self.lt(t)
        return ("%04i-%02i-%02i %02i:%02i:%02i" % (ts.tm_year, ts.tm_mon, ts.tm_mday, ts.tm_hour, ts.tm_min, ts.tm_sec)).encode()

    def name(self, h):
        s = b""
        if h["path"] is not None:
            s += safe(h["path"])
        if h["filename"] is not None:
            s += safe(h["filename"])
        if h["target"] is not None:
            s += safe(b" -> " + h["target"])
        return s

    def whole(self, h):
        s = b""
        if h["path"] is not None:
            s += safe(h["path"])
        if h["filename"] is not None:
            s += safe(h["filename"])
        if h["target"] is not None:
            s += safe(b"|" + h["target"])
        return s + b"\n"

    # column = (title, width, cell fn, footer fn or None)
    def columns(self, mode):
        PERM = (b" PERMSSN", 10, self.perm, lambda st: b" Total    ")
        UG = (b" UID  GID", 11, self.uidgid, lambda st: (("%5i file " if st["n"] == 1 else "%5i files") % st["n"]).encode())
        PACKED = (b" PACKED", 7, lambda h: b"%7d" % h["compressed_length"], lambda st: b"%7d" % st["packed"])
        SIZE = (b"   SIZE", 7, lambda h: b"%7d" % h["length"], lambda st: b"%7d" % st["size"])
        RATIO = (b" RATIO", 6, self.ratio_col, lambda st: b"******" if st["size"] == 0 else ("%5.1f%%" % ratio(st["packed"], st["size"])).encode())
        MCRC = (b"METHOD CRC", 10, lambda h: (b"%-5s" % safe(h["method"])) + b" %04x" % h["crc"], None)
        STAMP = (b"    STAMP", 12, lambda h: self.stamp(h["timestamp"]), lambda st: self.stamp(st["mtime"]))
        FSTAMP = (b"    STAMP", 19, lambda h: self.fullstamp(h["timestamp"]), lambda st: self.fullstamp(st["mtime"]))
        NAME = (b"       NAME", 20, self.name, None)
        SNAME = (b"      NAME", 13, self.name, None)
        WHOLE = (b"", 0, self.whole, None)
        LV = (b" LV", 3, lambda h: b"[%i]" % h["level"], None)
        return {"l": [PERM, UG, SIZE, RATIO, STAMP, NAME], "lv": [WHOLE, PERM, UG, SIZE, RATIO, STAMP, LV],
                "v": [PERM, UG, PACKED, SIZE, RATIO, MCRC, STAMP, SNAME], "vv": [WHOLE, PERM, UG, PACKED, SIZE, RATIO, MCRC, FSTAMP, LV]}[mode]

    def render(self, mode, members, archive_mtime, quiet=0):
        cols = self.columns(mode)
        last = [c for c in cols if c[1] != 0][-1]
        out = b""
        sep = b""
        for c in cols:
            sep += b"-" * c[1]
            if c[1] != 0 and c is not last:
                sep += b" "
        sep += b"\n"
        if quiet < 2:
            for c in cols:
                out += c[0]
                if c[1] > 0 and c is not last:
                    out += b" " * max(0, c[1] + 1 - len(c[0]))
            out += b"\n" + sep
        st = {"n": 0, "packed": 0, "size": 0, "mtime": archive_mtime}
        for h in members:
            for c in cols:
                out += c[2](h)
                if c[1] != 0 and c is not last:
                    out += b" "
            out += b"\n"
            st["n"] += 1
            st["packed"] = (st["packed"] + h["compressed_length"]) & 0xFFFFFFFF
            st["size"] = (st["size"] + h["length"]) & 0xFFFFFFFF
        if quiet < 2:
            out += sep
            n = len(cols)
            while n > 0 and cols[n - 1][3] is None:
                n -= 1
            for i in range(n):
                c = cols[i]
                if c[3] is not None:
                    out += c[3](st)
                elif i + 1 < n:
                    out += b" " * len(c[0])
                if c[1] != 0 and i + 1 < n:
                    out += b" "
            out += b"\n"
        return out


def glob_match(pat, s):
    """'*' any run (also across '/'), '?' one character, case sensitive: dynamic programming"""
    n, m = len(pat), len(s)
    dp = [[False] * (m + 1) for _ in range(n + 1)]
    dp[0][0] = True
    for i in range(1, n + 1):
        if pat[i - 1:i] == b"*":
            dp[i][0] = dp[i - 1][0]
        for j in range(1, m + 1):
            if pat[i - 1:i] == b"*":
                dp[i][j] = dp[i - 1][j] or dp[i][j - 1]
            elif pat[i - 1:i] == b"?" or pat[i - 1] == s[j - 1]:
                dp[i][j] = dp[i - 1][j - 1]
    return dp[n][m]


def parse_members(json_lines):
    import json
    out = []
    for ln in json_lines.splitlines():
        if not ln.strip():
            continue
        d = json.loads(ln)
        for k in ("path", "filename", "target"):
            d[k] = bytes.fromhex(d[k]) if d[k] is not None else None
        d["method"] = bytes.fromhex(d["method"])
        out.append(d)
    return out
