"""C07 - a member is reported good only if its bytes match the recorded length and CRC-16 (E2; CLI layer in E4)."""
from vlib import runner
import build
from props.C16 import WRAP


def run(ctx):
    b = build.ensure_explorer("arc_walk", "asan", extra_ld=WRAP)
    ctx.run_space(b, "verdict", ["burst=%d" % (6 if ctx.thorough else 3), "fast=%d" % (0 if ctx.thorough else 1)], cpu_limit=120)
    ctx.run_space(b, "kinds", ["prop=16", "stride=1"], cpu_limit=60)
    try:
        from props import cli_c07
        cli_c07.run(ctx)
    except ImportError:
        pass
    ctx.assumptions += ["the bytes actually produced are obtained with lha_reader_read from a fresh reader and judged with an independent CRC-16; verdicts come from lha_reader_check / lha_reader_extract on further fresh readers"]
    return ctx.finish(
        rule="one-member archives of each of the 14 methods x levels 0-2: EVERY value of the recorded CRC field (65536; quick: one level per method), recorded length {0,1,n-1,n,n+1,2n,2^32-1} and prefix-consistent (length, CRC) pairs, data truncated at every byte, all 255 substitutions of every compressed byte; "
             "stored member of 3 (thorough 6) bytes: every burst of 1..16 flipped bits at every bit offset; plus the truncation clause on the 8 multi-member archives at every cut (space 'kinds'). Oracle: good <=> produced length and CRC equal the recorded ones; damaged stored members and truncated members are always bad. non-trivial = distinct perturbation classes",
        replay_fn=lambda rep: (__import__('vlib.cliprop', fromlist=['x']).replay_case(rep) if rep.get('kind') == 'cli' else runner.replay_explorer(rep, quiet=True)))


def replay(rep):
    from vlib import cliprop
    return cliprop.replay_case(rep) if rep.get('kind') == 'cli' else runner.replay_explorer(rep)
