"""C14 - decoder reads: split-invariant, exact declared length, faithful CRC/length, monitor 0..T (E1)."""
from vlib import runner
import build

METHODS = ["-lh0-", "-lz4-", "-pm0-", "-lzs-", "-lz5-", "-lh1-", "-lh4-", "-lh5-", "-lh6-", "-lh7-", "-lhx-", "-lk7-", "-pm1-", "-pm2-"]


def run(ctx):
    asan = build.ensure_explorer("dec_split", "asan")
    o0 = build.ensure_explorer("dec_split", "o0")
    depth = 3 if ctx.thorough else 2
    for m in METHODS:
        ctx.run_space(asan, "split", ["method=" + m, "depth=%d" % depth], cpu_limit=120)
    # observables must not depend on uninitialised (dead stack) memory: gcc -O0 build, two stack patterns
    for m in METHODS:
        ctx.run_space(o0, "split", ["method=" + m, "poison=1", "long=0"], cpu_limit=120, shards=4)
    ctx.assumptions += ["valid streams come from the reference serialisers (explorers/streams.h); 'the stream holds that much' is decided by the reference expansion",
                        "the uninitialised-memory clause is decided by a differential run of the gcc -O0 build with the dead stack below the caller filled with two different patterns"]
    return ctx.finish(
        rule="per method: tiny (6 and 9 byte), medium (700 byte, multi-block) and long (2.5 progress blocks) valid streams, every truncation of the tiny ones, five truncations and one corruption of the medium one; x declared length {0,1,n-1,n,n+1,4n}; "
             "outputs <= 10 bytes: EVERY composition into read sizes, with and without interleaved zero-length reads, monitor attached before every read k and after the last; longer outputs: every cyclic schedule of length <= depth over {0,1,2,7,64,4096,n+1} x attach points. "
             "Oracle: equals the single maximal read, <= declared, == reference when valid, accessors after every read == independent CRC-16/length, monitor calls 0,1,..,T in order with constant T.  non-trivial = distinct (stream, declared, schedule, attach) with more than one read",
        replay_fn=lambda rep: runner.replay_explorer(rep, quiet=True))
