"""C19 - list output renders every member's header fields faithfully in Unix-LHA layout (E4)."""
import struct
from vlib import runner, cliprop, cli, lzhfmt

NOW = cli.NOW
SIX = 6 * 30 * 24 * 60 * 60
hx = lambda b: b.hex()


def base(level=2, name=b"file.txt", **kw):
    m = {"level": level, "size": 100, "packed": 60, "time": NOW - 86400 if level >= 2 else lzhfmt.dos_time(2012, 3, 4, 5, 6, 8), "os": ord("U"), "crc": 0xBEEF}
    if level <= 1:
        m["name"] = hx(name)
    else:
        m["exts"] = [[1, hx(name)]]
    m.update(kw)
    return m


def with_ext(m, t, data):
    m = dict(m)
    m["exts"] = list(m.get("exts", [])) + [[t, hx(data)]]
    return m


def member_space(thorough):
    """one column varied at a time over all its boundary values (single-member archives)"""
    sizes = [0, 1, 9999999, 10 ** 7, 2 ** 31, 2 ** 32 - 1]
    out = []
    for s in sizes:
        for p in sizes:
            for lvl in (0, 1, 2, 3):
                if lvl == 1 and p > 2 ** 32 - 100:
                    continue
                out.append([base(lvl, size=s, packed=p)])
    for os_ in range(256):
        out.append([base(1, os=os_, name=b"OSNAME.TXT")])
        if thorough:
            out.append([base(2, os=os_)])
    for bit in range(12):
        for typ in (0o100000, 0o040000, 0o120000, 0):
            m = with_ext(base(2, method=hx(b"-lhd-") if typ in (0o040000, 0o120000) else hx(b"-lh0-"),
                              name=b"lnk|tgt" if typ == 0o120000 else b"entry"), 0x50, struct.pack("<H", typ | (1 << bit)))
            if typ == 0o040000:
                m["exts"] = [[2, hx(b"dir\xff")]] + [e for e in m["exts"] if e[0] != 1]
            out.append([m])
    for nib in range(16):
        out.append([with_ext(base(2), 0x50, struct.pack("<H", (nib << 12) | 0o644))])
    for w in range(128):
        os9 = bytes(7) + struct.pack("<H", w) + bytes(3)
        out.append([with_ext(base(2, os=ord("9")), 0xCC, os9)])
        if thorough or w % 8 == 0:
            out.append([with_ext(base(2, method=hx(b"-lhd-"), exts=[[2, hx(b"d\xff")]]), 0xCC, bytes(7) + struct.pack("<H", w | 0x80) + bytes(3))])
    for uid, gid in ((0, 0), (1, 1), (65535, 65535), (12345, 6), (99999 & 0xFFFF, 100), (9, 99999 & 0xFFFF)):
        out.append([with_ext(with_ext(base(2), 0x50, struct.pack("<H", 0o100644)), 0x51, struct.pack("<HH", gid, uid))])
        out.append([with_ext(base(2), 0x51, struct.pack("<HH", gid, uid))])
    for t in (0, 1, NOW - SIX - 1, NOW - SIX, NOW - SIX + 1, NOW - 1, NOW, NOW + 1, 2 ** 31 - 1, 2 ** 31, 2 ** 32 - 1, 86399, 86400, 951782400, 1330516800):
        out.append([base(2, time=t)])
        out.append([with_ext(base(1), 0x54, struct.pack("<I", t))])
    for y, mo, d, hh, mm, ss in ((1980, 1, 1, 0, 0, 0), (2011, 11, 3, 23, 59, 58), (2011, 11, 4, 0, 0, 0), (2012, 5, 1, 0, 0, 0), (2012, 2, 29, 12, 0, 0), (2043, 12, 31, 23, 59, 58), (2099, 6, 15, 1, 2, 4)):
        for lvl in (0, 1):
            out.append([base(lvl, time=lzhfmt.dos_time(y, mo, d, hh, mm, ss))])
    for L in list(range(0, 41)) + [300]:
        out.append([base(2, name=(b"n" * L) or b"x") if L else base(2, method=hx(b"-lhd-"), exts=[[2, hx(b"onlydir\xff")]])])
        if L and L < 200:
            out.append([base(1, name=b"d\\" + b"m" * L)])
    # names, directory parts and link targets at and around the sizes of fixed formatting buffers
    for L in (250, 251, 252, 253, 254, 255, 256, 257, 258, 259, 260, 511, 512, 513, 1023, 1024, 1025, 4000) + ((8191, 8192, 8193, 20000) if thorough else ()):
        body = bytes(b"abcdefghijklmnopqrstuvwxyz"[i % 26] for i in range(L))
        out.append([base(2, name=body)])
        out.append([base(2, size=5, exts=[[2, hx(body + b"\xff")], [1, hx(b"n")]])])
        out.append([base(2, size=5, exts=[[2, hx(body[:L // 2] + b"\xff" + body[L // 2:] + b"\xff")], [1, hx(body[:7])]])])
        out.append([with_ext(base(2, name=b"lnk|" + body, method=hx(b"-lhd-"), size=0, packed=0), 0x50, struct.pack("<H", 0o120777))])
        out.append([with_ext(base(2, name=body[:L - 4] + b"|tgt", method=hx(b"-lhd-"), size=0, packed=0), 0x50, struct.pack("<H", 0o120777))])
    # conversion specifications in stored names are text like any other
    for nm in (b"100%.txt", b"50% done.txt", b"%s%s%s%s", b"%d%x%c", b"%%", b"%5$s", b"a%-10sb", b"%", b"%08.3f", b"x%ny"):
        out.append([base(2, name=nm)])
        out.append([base(1, name=b"dir%s\\" + nm)])
        out.append([base(2, size=5, exts=[[2, hx(b"p%d\xff" + nm + b"\xff")], [1, hx(nm)]])])
        out.append([with_ext(base(2, name=b"l%s|" + nm, method=hx(b"-lhd-"), size=0, packed=0), 0x50, struct.pack("<H", 0o120777))])
    # bytes that must be shown as '?': in the name, the path and the link target
    for b in (0x01, 0x1F, 0x7F, 0x80, 0xFF, 0x09, 0x0A, 0x1B):
        ch = bytes([b])
        out.append([base(2, name=b"na" + ch + b"me")])
        out.append([base(1, name=b"d" + ch + b"r\\na" + ch + b"me")])
        out.append([base(2, size=5, exts=[[2, hx(b"pa" + ch + b"th\xff")], [1, hx(b"n")]])])
        out.append([with_ext(base(2, name=b"lnk|tg" + ch + b"t", method=hx(b"-lhd-"), size=0, packed=0), 0x50, struct.pack("<H", 0o120777))])
    # links, directories, every level
    for lvl in (0, 1, 2, 3):
        if lvl <= 1:
            out.append([with_ext(base(lvl, name=b"lnk|../tgt", method=hx(b"-lhd-"), size=0, packed=0), 0x50, struct.pack("<H", 0o120777))] if lvl == 1 else
                       [dict(base(0, name=b"lnk|../tgt", method=hx(b"-lhd-"), size=0, packed=0), area=hx(lzhfmt.unix_area(NOW - 5, 0o120777, 1000, 1000)))])
            out.append([base(lvl, name=b"DIR\\SUB\\", method=hx(b"-lhd-"), size=0, packed=0)])
        else:
            out.append([with_ext(base(lvl, name=b"lnk|tgt", method=hx(b"-lhd-"), size=0, packed=0), 0x50, struct.pack("<H", 0o120777))])
            out.append([base(lvl, method=hx(b"-lhd-"), size=0, packed=0, exts=[[2, hx(b"dir\xffsub\xff")]])])
    # methods incl. odd bytes in later members are covered by C18; here every regular method name
    for meth in (b"-lh0-", b"-lh1-", b"-lh5-", b"-lh6-", b"-lh7-", b"-lhx-", b"-lzs-", b"-lz5-", b"-lz4-", b"-pm0-", b"-pm1-", b"-pm2-", b"-lhd-", b"-lh9-"):
        out.append([base(2, method=hx(meth))])
    return out


DATA = b"0123456789abcdefghij"


def multi_archives():
    d = lambda n: hx(DATA[:n])
    A = [dict(base(1, name=b"alpha.txt", size=20), data=d(20)), dict(base(2, name=b"beta.c", size=7), data=d(7)),
         dict(base(2, size=3, exts=[[2, hx(b"src\xfflib\xff")], [1, hx(b"util.c")]]), data=d(3)),
         dict(base(0, name=b"NOTES.V1.TXT", size=11), data=d(11)), dict(base(2, name=b"banana", size=0), data="")]
    return [[], A[:1], A[:2], A]


def cases(thorough):
    for ms in member_space(thorough):
        for mode in ("l", "lv", "v", "vv"):
            yield {"members": ms, "mode": mode}
    for ms in multi_archives():
        for mode in ("l", "lv", "v", "vv"):
            for q in ("", "q0", "q1", "q2", "q"):
                for fi, filters in enumerate(([], [hx(b"*.txt")], [hx(b"nomatch*")], [hx(b"*.c"), hx(b"alpha.???")], [hx(b"*/util.c")], [hx(b"*na")], [hx(b"src/*")], [hx(b"*")], [hx(b"?eta.c"), hx(b"*.v1.txt")])):
                    for spell in ((0, 1, 2, 3) if fi < 2 else (fi % 4,)):
                        yield {"members": ms, "mode": mode, "q": q, "filters": filters, "spell": spell}


def many_cases(thorough):
    """hundreds of rows: row counters and the footer sums pass 255/256 and 65535/65536"""
    for n in (255, 256, 257, 1000) + ((65537,) if thorough else ()):
        ms = [dict(base(2 if i % 3 else 1, name=b"member%05d.dat" % i, size=(i * 7919) % 65000, packed=(i * 104729) % 64000), data="") for i in range(n)]
        for mode in ("l", "lv", "v", "vv"):
            yield {"members": ms, "mode": mode}
        yield {"members": ms, "mode": "l", "q": "q1", "filters": [hx(b"*7.dat")]}
        yield {"members": ms, "mode": "v", "filters": [hx(b"member000??.dat"), hx(b"*99.dat")]}


def duplicate_cases(thorough):
    """the same stored path more than once in an archive: every copy is a row, whatever selects it"""
    d = lambda n: hx(DATA[:n])
    ms = [dict(base(2, name=b"dup.txt", size=5), data=d(5)), dict(base(2, name=b"other.c", size=7), data=d(7)), dict(base(1, name=b"dup.txt", size=9), data=d(9)),
          dict(base(2, size=3, exts=[[2, hx(b"d\xff")], [1, hx(b"dup.txt")]]), data=d(3)), dict(base(2, name=b"dup.txt", size=11), data=d(11))]
    for mode in ("l", "lv", "v", "vv"):
        for q in ("", "q1"):
            for filters in ([], [hx(b"dup.txt")], [hx(b"dup.txt"), hx(b"other.c")], [hx(b"d/dup.txt")], [hx(b"dup.???")], [hx(b"other.c")], [hx(b"dup.txt"), hx(b"dup.txt")]):
                yield {"members": ms, "mode": mode, "q": q, "filters": filters}


def long_glob_cases(thorough):
    """wildcards decide on the whole stored path, however long it is"""
    for L in (250, 255, 256, 257, 300, 1000) + ((5000,) if thorough else ()):
        stem = bytes(b"abcdefghij"[i % 10] for i in range(L - 4))
        ms = [dict(base(2, name=stem + b".txt", size=3), data=hx(b"abc")), dict(base(2, name=stem + b".dat", size=4), data=hx(b"abcd")),
              dict(base(2, size=5, exts=[[2, hx(stem[:L // 2] + b"\xff")], [1, hx(stem[L // 2:] + b".txt")]]), data=hx(b"abcde")), dict(base(2, name=b"x.txt", size=1), data=hx(b"a"))]
        for mode in ("l", "v", "lv"):
            for filters in ([hx(b"*.txt")], [hx(b"*.dat")], [hx(b"a*j.txt")], [hx(b"*/*.txt")], [hx(b"*" + stem[-20:] + b".txt")], [hx(b"?" * 5 + b"*")], [hx(stem + b".txt")]):
                yield {"members": ms, "mode": mode, "filters": filters}


def london_cases(thorough):
    for ms in member_space(False)[-120:] + [m for m in member_space(False) if "time" in m[0]][:200:3]:
        for mode in ("l", "vv"):
            yield {"members": ms, "mode": mode}


def run(ctx):
    cliprop.run_space(ctx, "props.cli_c19", "members", cases(ctx.thorough), chunk=32)
    cliprop.run_space(ctx, "props.cli_c19", "many", many_cases(ctx.thorough), chunk=1)
    cliprop.run_space(ctx, "props.cli_c19", "duplicates", duplicate_cases(ctx.thorough), chunk=4)
    cliprop.run_space(ctx, "props.cli_c19", "long-glob", long_glob_cases(ctx.thorough), chunk=4)
    cliprop.run_space(ctx, "props.cli_c19", "members-london", london_cases(ctx.thorough), env={"TZ": "Europe/London"}, chunk=32)
    ctx.assumptions += ["vlib/listrender.py reproduces all 720 listings recorded from the original Unix LHA tool (./check selftest); header fields come from the C reference parser/normaliser (ref_hdrjson), float32 ratio arithmetic is emulated exactly",
                        "totals are kept below 2^32 (the statement says 'sums'; a 32-bit total is not decidable from it); fixed 'now' through TEST_NOW_TIME, archive mtime set with utime"]
    return ctx.finish(
        rule="single-member archives varying one column at a time over its boundary values (size x packed over {0,1,9999999,10^7,2^31,2^32-1} x levels; all 256 OS types; each permission bit x type nibble; all 128 OS-9 words; uid/gid boundaries; 15 Unix and 7 DOS timestamps around the six-month boundary, 0 and 2^32-1; name lengths 0..40 and 300; names, directory parts and link targets of 250..260, 511..513, 1023..1025 and 4000 (thorough 8191..8193, 20000) bytes; links and directories at every level; every method name) x {l, lv, v, vv}; "
             "archives of 0/1/2/5 members x 4 modes x quiet {none,q0,q1,q2,q} x 9 wildcard lists x spellings of the command word (quiet before/after the verbose modifier, with/without the leading '-') (incl. backtracking patterns); an archive that stores one path four times, under literal and wildcard arguments; wildcard lists against stored paths of 250..1000 (5000) bytes; names holding printf conversion specifications; archives of 255/256/257/1000 (thorough 65537) members with and without wildcard lists; a DST-bearing zone (Europe/London) for the time columns. Oracle: stdout equals the reference rendering byte for byte. non-trivial = cases with at least one selected row",
        replay_fn=lambda rep: cliprop.replay_case(rep))


def replay(rep):
    return cliprop.replay_case(rep)
