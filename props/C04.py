"""C04 - PMarc -pm1-/-pm2- (E1)."""
from vlib import runner
import build


def run(ctx):
    b = build.ensure_explorer("dec_pm", "asan")
    d = 5 if ctx.thorough else 4
    for s, a in (("pm2-tables", []), ("pm2-bytes", []), ("pm2-copies", []), ("pm2-seq", ["depth=%d" % d]), ("pm2-schedule", []), ("pm2-reload", []),
                 ("pm1-headers", []), ("pm1-lengths", []), ("pm1-maxout", []), ("pm1-distances", []), ("pm1-seq", ["depth=%d" % d])):
        ctx.run_space(b, s, a, cpu_limit=60)
    ctx.assumptions += ["ref/ref_pm.c: -pm2-/-pm1- serialisers and decoders written from the format notes (DESIGN.md A.5/A.6); decoders bound to all 36 -pm1- (all 32 start headers) and 4 -pm2- corpus members by ./check selftest; every enumerated stream round-trips through the reference decoder"]
    return ctx.finish(
        rule="-pm2-: all complete code-length vectors over 15 symbol sets x every (min_len,length_bits) that expresses them, single-code forms, offset-table vectors, both ends of each byte class after every MTF history to depth 3, length x distance boundaries, all command sequences to the depth over 12 letters, "
             "table schedule (T-2..T+1 for six thresholds x 3 prefix styles x crossing copies x re-read bits), reloads between 6 kinds of code table (universal, no-offset small, four single-code forms) at 4096 and 8192; -pm1-: all 32 headers x classes, block/copy length boundaries, every range at T-1,T,T+1 for 14 thresholds, sequences to the depth over 8 letters; zero-fill tail: stream cut at every byte vs zero-extended. "
             "non-trivial = distinct stream bytes",
        replay_fn=lambda rep: runner.replay_explorer(rep, quiet=True))
