from vlib import cliprop
from props import cli_misc


def run(ctx):
    cliprop.run_space(ctx, "props.cli_misc", "c08", cli_misc.cases_c08(ctx.thorough), chunk=32)
