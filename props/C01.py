"""C01 - LHA static-Huffman family (E1)."""
from vlib import runner
import build

METHODS = ["-lh4-", "-lh5-", "-lh6-", "-lh7-", "-lhx-", "-lk7-"]


def run(ctx):
    b = build.ensure_explorer("dec_lh", "asan")
    for m in METHODS:
        ctx.run_space(b, "tables", ["method=" + m])
    for m in METHODS:
        ctx.run_space(b, "seq", ["method=" + m, "depth=%d" % (4 if ctx.thorough else 3)])
    for m in METHODS:
        ctx.run_space(b, "blocks", ["method=" + m, "maxn=%d" % (8 if ctx.thorough else 6)])
    for m in METHODS:
        ctx.run_space(b, "wrap", ["method=" + m], cpu_limit=120)
    ctx.assumptions += ["ref/ref_lh.c + ref/ref_huff.c: serialiser and decoder of the ar002-style static Huffman format, decoder bound to the corpus members of all six methods by ./check selftest; every enumerated stream must also round-trip through the reference decoder",
                        "copy distances stay within the official window of each method (4/8/32/64/512 KiB, LHARK 64 KiB)"]
    return ctx.finish(
        rule="valid streams from the reference serialiser: 'tables' = all complete code-length vectors over boundary symbol sets (size 2..5), every zero-run tokenisation alternative, all complete temp-table codes x every legal skip-field value, chains, all-codes-used, single-symbol forms, offset-table vectors trimmed and padded; "
             "'seq' = all command sequences to the depth over a 20-letter alphabet (2 literals + 6 distances x 3 lengths); 'blocks' = every partition of every sequence over 3 letters into blocks with differing tables; "
             "'wrap' = prefixes ending within +-2 of 1x/2x/4x the window then boundary copies.  Oracle: LZ77 expansion over a window of spaces.  non-trivial = distinct stream bytes containing a copy (or more than one block)",
        replay_fn=lambda rep: runner.replay_explorer(rep, quiet=True))
