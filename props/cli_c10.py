"""C10 judge: extraction never touches anything outside the extraction directory."""
import os
from vlib import cli, lzhfmt
from vlib.arcpy import entry

OUTSIDE = [("keep.txt", "f", b"canary", 0o644, 1000000000), ("x", "f", b"outside x", 0o644, 1000000000), ("z", "f", b"outside z", 0o600, 1000000000),
           ("f", "f", b"outside f", 0o644, 1000000000), ("sub", "d", None, 0o755, 1000000000), ("sub/inner", "f", b"inner", 0o644, 1000000000)]


def alphabet(name, ABS):
    """ABS: absolute path (bytes) of the canary directory"""
    rel_abs = ABS.lstrip(b"/")
    if name == "A1":
        return [
            entry("f", b"", b"f", b"data-f"),
            entry("f", b"d/", b"f", b"data-df"),
            entry("f", b"../", b"f", b"evil1"),
            entry("f", ABS + b"/", b"f", b"evil2"),
            entry("f", b"d/../../", b"f", b"evil3"),
            entry("f", b"", b"", b"evil4", level=0, raw_name=b"a\\..\\..\\f"),
            entry("f", b"", b"f", b"evil5", raw_path=b"..\xffoutside\xff"),
            entry("f", b"w/", b"g", b"through-w"),
            entry("d", b"d/", b"", perms=0o040555),
            entry("l", b"", b"s", target=b"d"),
            entry("l", b"", b"w", target=b"../outside"),
            entry("l", b"", b"abcd", target=ABS),
            entry("f", b"", b"f", b"evil6", raw_path=b"..\x00"),
            entry("f", b"", b"", b"evil7", level=1, raw_name=b"a\x00/../f"),
            entry("f", b"", b"", b"evil8", level=0, raw_name=b"..\\f"),
            entry("f", b"", b"", b"evil9", level=1, raw_name=b"..\\outside\\f"),
            entry("f", b"", b"", b"evil10", level=1, raw_name=ABS.replace(b"/", b"\\") + b"\\f"),
            entry("d", b"", b"", raw_path=b"..\x00", perms=0o040700),
            entry("d", ABS + b"/sub/", b"", perms=0o040700, mtime=1000000001),
            entry("l", b"", b"m", target=b"d/../../outside"),
            entry("f", b"m/", b"g", b"through-m"),
            entry("l", b"", b"n", target=b"./.."),
            # members whose method has no decoder (-lh2-, -lh3- are genuine but unsupported): nothing is decoded, nothing may be touched
            entry("f", b"", b"f", b"zzzzzz", method=b"-lh2-"),
            entry("f", b"d/", b"f", b"yyyyyy", method=b"-lh3-", level=1),
            # two leading separators in front of an absolute location: in a level-0 name, in a level-2 path header
            entry("f", b"", b"", b"evil13", level=0, raw_name=b"\\\\" + rel_abs.replace(b"/", b"\\") + b"\\f"),
            entry("f", b"", b"f", b"evil14", raw_path=b"\xff\xff" + rel_abs.replace(b"/", b"\xff") + b"\xff"),
            # 22 bytes that are no header (the level byte is 9): whatever lies behind them is not part of the archive
            b"\x14\x00-lh0-" + bytes(13) + b"\x09\x00",
            # directory entries without a file name whose path header climbs out
            entry("d", b"", b"", raw_path=b"..\xffc10dir\xff", perms=0o040700),
            lzhfmt.build_header(1, b"-lhd-", packed=0, size=0, crc=0, name=b"", time=lzhfmt.dos_time(2010, 1, 1, 0, 0, 0),
                                exts=[(2, b"sub\xff..\xff..\xffc10dir2\xff"), (0x50, b"\xc0\x41")]),
            # the name supplied twice, a longer harmless one first: level-1 base name + 0x01 header; two 0x01 headers
            lzhfmt.build_header(1, b"-lh0-", packed=6, size=6, crc=lzhfmt.crc16(b"evil11"), name=b"aaaaaaaaaaaa", time=lzhfmt.dos_time(2010, 1, 1, 0, 0, 0),
                                exts=[(1, b"../f")]) + b"evil11",
            lzhfmt.build_header(2, b"-lh0-", packed=6, size=6, crc=lzhfmt.crc16(b"evil12"), time=1262304000,
                                exts=[(1, b"aaaaaaaaaaaa"), (1, ABS + b"/f")]) + b"evil12",
        ]
    return [
        entry("d", b"q/", b""),
        entry("f", b"", b"f", b"data-f"),
        entry("f", b"p/", b"g", b"data-pg"),
        entry("l", b"", b"p", target=b"q"),
        entry("l", b"", b"p", target=b"abcd"),
        entry("l", b"", b"p", target=b"w"),
        entry("l", b"", b"abcd", target=ABS),
        entry("l", b"", b"w", target=b"../outside"),
        entry("l", b"p/", b"z", target=ABS + b"/x"),
        entry("f", b"abcd/", b"k", b"through-abcd"),
    ]


NAMES = {"A1": ["f", "d/f", "../f", "/ABS/f", "d/../../f", "a\\..\\..\\f(L0)", "..<FF>outside<FF>+f", "w/g", "d/(0555)", "s->d", "w->../outside", "abcd->ABS", "..<NUL>+f", "a<NUL>/../f(L1)", "..\\f(L0)", "..\\outside\\f(L1)", "ABS\\f(L1)", "dir ..<NUL>", "dir /ABS/sub/", "m->d/../../outside", "m/g", "n->./..", "f(-lh2-)", "d/f(-lh3-)", "\\\\ABS\\f(L0)", "<FF><FF>ABS<FF>+f", "<22 bytes, no header>", "dir ..<FF>c10dir<FF>", "dir sub<FF>..<FF>..<FF>c10dir2<FF>(L1)", "aaaa+../f(L1 twice)", "aaaa+/ABS/f(twice)"],
         "A2": ["q/", "f", "p/g", "p->q", "p->abcd", "p->w", "abcd->ABS", "w->../outside", "p/z->ABS/x", "abcd/k"]}


def describe(space, case):
    return "C10 %s cmd=%s entries=[%s]%s" % (space, case["cmd"], ", ".join(NAMES[case["alpha"]][i] for i in case["seq"]), " pre=%s" % case["pre"] if case.get("pre") else "")


def dangerous_target(t):
    return t.startswith(b"/") or b".." in t.split(b"/")


def run_case(runner, space, case):
    holder = {}

    def build(S):
        ABS = os.fsencode(os.path.join(S, "outside"))
        holder["root"] = os.fsencode(os.path.join(S, "root"))
        holder["abs"] = ABS
        al = alphabet(case["alpha"], ABS)
        return b"".join(al[i] for i in case["seq"])
    cmd = case["cmd"]
    args = [cmd, "../archive.lzh"]
    pre = []
    if case.get("pre"):
        # a symlink already present at the final component of an output file
        kind = case["pre"]
        tgt = {"inside": b"inside-target", "outside": b"../outside/keep.txt", "dangling": b"../outside/created-by-link", "dirs": b"inside-target", "readonly-dir": b"../outside/keep.txt"}[kind]
        pre = [("inside-target", "f", b"inside", 0o644, 1000000000), ("f", "l", tgt, None, None), ("d", "d", None, 0o755, None), ("d/f", "l", tgt if kind != "inside" else b"../inside-target", None, None),
               ("w", "l", tgt, None, None), ("abcd", "l", tgt, None, None), ("s", "l", tgt, None, None)]
    outside = OUTSIDE
    uid = 0
    if case.get("pre") == "readonly-dir":
        # the link sits in a directory the (unprivileged) tool cannot modify, so it cannot be removed first; its target outside
        # is writable by everybody: whatever the tool does instead of replacing the link, it may not write through it
        pre = [("d", "d", None, 0o555, None), ("d/f", "l", b"../../outside/keep.txt", None, None), ("f", "l", b"../outside/keep.txt", None, None)]
        outside = [("keep.txt", "f", b"canary", 0o666, 1000000000)] + [o for o in OUTSIDE if o[0] != "keep.txt"]
        uid = cli.NOBODY
    if case.get("pre") == "dirs":
        # directories of the archive's names already exist in the working directory (w= must not touch them)
        pre = [("d", "d", None, 0o750, 900000000), ("q", "d", None, 0o750, 900000000), ("p", "d", None, 0o750, 900000000)]
    r = runner.run(build, args, stdin=b"y\n" * 12, pre=pre, outside=outside, uid=uid)
    root, ABS = holder["root"], holder["abs"]
    readonly = cmd[0] in "lvtp" or "n" in cmd[1:].split("w=")[0]
    viol = []
    danger = []          # (op path, resolved location, target) of dangerous links created so far
    nmut = 0
    for op in r.ops:
        name, path, res, extra, result, err = op
        if not cli.is_mutating(op):
            continue
        ok = (result >= 0) if name in ("open",) else (result == 0)
        if not ok:
            continue
        nmut += 1
        if readonly:
            viol.append(("c10-readonly-command-mutates", "%s %r succeeded under '%s'" % (name, path, cmd)))
            continue
        region = root
        if "w=" in cmd:
            # the extraction directory is the w= directory: only its own creation may touch the working directory
            region = root + b"/" + cmd.split("w=", 1)[1].encode()
            if name == "mkdir" and res == region:
                continue
        inside = res.startswith(b"fd=") or res == region or res.startswith(region + b"/")
        if not inside:
            if danger and name in ("unlink", "symlink", "remove"):
                # which dangerous link was traversed, and is its path longer than the entry being created through it?
                via = [d for d in danger if res.startswith(os.path.realpath(os.path.join(os.path.dirname(d[1]), d[2])) + b"/") or True]
                longer = any(len(d[0]) > len(path) for d in danger)
                viol.append(("c10-deferred-link-through-%s-dangerous-link" % ("longer" if longer else "not-longer"),
                             "%s %r resolves to %r outside the extraction root (dangerous links already present: %s)" % (name, path, res, [d[0] for d in danger])))
            else:
                viol.append(("c10-escape-%s-%s" % ("after-dangerous-link" if danger else "main", name), "%s %r resolves to %r outside the extraction root %r" % (name, path, res, root)))
        elif danger and name not in ("unlink", "symlink", "remove"):
            viol.append(("c10-operation-after-dangerous-link-%s" % name, "%s %r succeeded while dangerous link(s) %s already existed" % (name, path, [d[0] for d in danger])))
        if name == "symlink" and extra.startswith("target="):
            t = extra[7:].encode("latin1")
            if dangerous_target(t):
                danger.append((path, res, t))
    if r.outside_after != r.outside_before and not any(v[0].startswith("c10-deferred-link-through") or v[0].startswith("c10-escape") for v in viol):
        changed = [k for k in set(r.outside_before) | set(r.outside_after) if r.outside_before.get(k) != r.outside_after.get(k)]
        viol.append(("c10-outside-changed-unlogged", "objects outside the root changed without a logged escaping call: %r" % changed[:5]))
    extra_top = [x for x in r.top if x not in ("root", "outside", "archive.lzh", "stdin", "stdout", "stderr", "oplog")]
    if extra_top:
        viol.append(("c10-sandbox-parent-changed", "new objects next to the extraction root: %r" % extra_top))
    if case.get("pre") == "dirs":
        for k in (b"d", b"q", b"p"):
            t = r.tree.get(k)
            if "w=" in cmd and (t is None or t[0] != "d" or t[1] != 0o750 or t[2] != 900000000):
                viol.append(("c10-object-outside-w-dir-changed", "%r next to the w= directory was changed: %r" % (k, t)))
    elif case.get("pre") == "readonly-dir":
        pass
    elif case.get("pre") and not readonly:
        # the pre-existing link must have been replaced, not followed
        if case["pre"] == "inside":
            t = r.tree.get(b"inside-target")
            if t is None or t[3] != b"inside":
                viol.append(("c10-preexisting-link-followed", "the target of a pre-existing link inside the root was modified: %r" % (t,)))
        for k in (b"f", b"d/f"):
            idx = {b"f": 0, b"d/f": 1}[k]
            attempted = any(o[0] in ("unlink", "open") and o[1] == k for o in r.ops)
            if idx in case["seq"] and attempted and k in r.tree and r.tree[k][0] == "l":
                viol.append(("c10-preexisting-link-kept", "%r is still a symbolic link after extraction" % k))
        # link entries replace a pre-existing link with their own target
        for k, idx, tgt in ((b"s", 9, b"d"), (b"w", 10, b"../outside"), (b"abcd", 11, ABS)):
            reached = any(o[0] in ("unlink", "symlink", "remove") and o[1] == k for o in r.ops)      # the archive may end before the entry (entries that are no headers)
            if idx in case["seq"] and reached and r.status == "exit:0" and k in r.tree and (r.tree[k][0] != "l" or r.tree[k][3] != tgt):
                viol.append(("c10-preexisting-link-not-replaced", "%r is %r after extraction, the archive says link to %r" % (k, r.tree[k][:1] + r.tree[k][3:], tgt)))
    if r.status not in ("exit:0", "exit:1", "exit:255"):
        viol.append(("c10-abnormal-exit", "%s %r" % (r.status, r.stderr[:200])))
    return {"transitions": max(1, nmut), "outcome": hash((tuple(sorted((k, v[0], v[3]) for k, v in r.tree.items())), r.status)), "nontrivial": nmut > 0 or readonly, "violations": viol,
            "states": [hash(tuple(sorted(r.tree)))]}
