"""C20 - freeing a reader releases everything, on any call history or allocation failure (E3)."""
from vlib import runner
import build
from props.C15 import WRAP
from props.C16 import WRAP as WRAP_WALK


def run(ctx):
    b = build.ensure_explorer("hist_explore", "asan", extra_ld=WRAP)
    ctx.run_space(b, "prefixes", ["full=%d" % (5 if ctx.thorough else 4), "leaks=1"], cpu_limit=120)
    ctx.run_space(b, "faults", ["full=%d" % (4 if ctx.thorough else 3), "leaks=1"], cpu_limit=120)
    if ctx.thorough:
        ctx.run_space(b, "faults", ["full=2", "leaks=1", "pairs=1"], cpu_limit=300)
    ctx.run_space(b, "fromfile", cpu_limit=120)
    # "for every archive": damaged archives too - cut at every offset, and every header byte substituted/deleted/duplicated
    w = build.ensure_explorer("arc_walk", "asan", extra_ld=WRAP_WALK)
    ctx.run_space(w, "kinds", ["prop=20", "stride=1", "leaks=1"], cpu_limit=60)
    ctx.run_space(w, "mutate", ["leaks=1", "full=%d" % (1 if ctx.thorough else 0)], cpu_limit=120)
    ctx.assumptions += ["allocator hooks (--wrap=malloc,calloc,realloc,strdup,free) count the library's live allocations between reader creation and the return of lha_input_stream_free; FILE streams through --wrap=fopen,fdopen,fclose and open descriptors through fcntl",
                        "one decode operation per member and one extract per entry; after an injected allocation failure the history goes on but only memory safety and the release balance are judged"]
    return ctx.finish(
        rule="'prefixes': the histories of C15 (all action vectors over 9 actions for the first 4 (thorough 5) entries, later entries extracted, 6 archives x 3 policies) each CUT AFTER EVERY NUMBER OF OPERATIONS, followed by lha_reader_free + lha_input_stream_free; "
             "'faults': every history with 3 (thorough 4) free entries: the fault-free run counts the allocations K, then K runs fail the k-th one; the history continues after the fault (same actions, judged only for memory safety and release) and is then freed; thorough: also every PAIR of failing allocations for the histories with 2 free entries and at most 60 allocations. Oracle: allocation balance zero, no FILE/descriptor left open, no sanitizer report. non-trivial = distinct (archive, policy, history)",
        replay_fn=lambda rep: runner.replay_explorer(rep, quiet=True))


def replay(rep):
    return runner.replay_explorer(rep)
