"""C06 judge: extraction reproduces the archived tree (model of DESIGN.md appendix E)."""
import os
from vlib import cli, lzhfmt, listrender
from vlib.arcpy import entry

METH = {"lh0": b"-lh0-", "lh5": b"-lh5-", "lh1": b"-lh1-", "lzs": b"-lzs-", "pm2": b"-pm2-", "lz5": b"-lz5-", "lh7": b"-lh7-", "pm1": b"-pm1-"}


def content_for(e):
    if "blob" in e:
        m, size, seed = e["blob"]
        return cli.blob(METH[m].decode(), size, seed)
    d = bytes.fromhex(e.get("data", ""))
    return d, d


def macbinary_wrap(name, data_fork, res_fork, mtime):
    hdr = bytearray(128)
    hdr[1] = len(name)
    hdr[2:2 + len(name)] = name
    hdr[0x41:0x49] = b"TEXTttxt"
    hdr[0x53:0x57] = len(data_fork).to_bytes(4, "big")
    hdr[0x57:0x5b] = len(res_fork).to_bytes(4, "big")
    hdr[0x5f:0x63] = ((mtime + 2082844800) & 0xFFFFFFFF).to_bytes(4, "big")
    body = bytes(hdr) + data_fork + res_fork
    return body + bytes((-len(body)) % 128)


def build(entries):
    out = b""
    for e in entries:
        k = e["k"]
        path = e["path"].encode("latin1")
        name = e["name"].encode("latin1")
        level = e.get("level", 2)
        if k == "f":
            plain, stream = content_for(e)
            if e.get("mac") is not None:
                # MacLHA member: OS 'm', stored; with an envelope the visible content is the data fork (or the resource fork)
                if e["mac"]:
                    body = macbinary_wrap(name, plain if e["mac"] != "res" else b"", b"R" * e.get("resfork", 40) if e["mac"] != "data" else b"", e["mtime"] + e.get("mactz", 0))
                else:
                    body = plain
                out += entry("f", path, name, data=body, level=level, mtime=e["mtime"], os_=ord("m"), unix=False)
            else:
                out += entry("f", path, name, level=level, perms=e.get("perms"), mtime=e["mtime"], method=METH[e["blob"][0]] if "blob" in e else b"-lh0-",
                             blob=(plain, stream), unix=e.get("unix", True))
        elif k == "d":
            out += entry("d", path, b"", level=level, perms=e.get("perms"), mtime=e["mtime"], unix=e.get("unix", True))
        else:
            out += entry("l", path, name, target=e["target"].encode("latin1"), level=level, mtime=e["mtime"])
    return out


def dangerous(t):
    return t.startswith("/") or ".." in t.split("/")


def model(entries, cmd, pre, answers):
    """expected tree: path -> dict(kind, mode?, mtime?, data?, target?), plus the set of paths whose mtime is unspecified"""
    opts = cmd[1:]
    wdir = None
    if "w=" in opts:
        opts, wdir = opts.split("w=", 1)
    ignore_path = "i" in opts
    yes_all = "f" in opts or "q" in opts
    policy = "all" if yes_all else "prompt"
    tree = {}
    loose = set()
    for rel, kind, data, mode, mtime in pre:
        tree[rel] = {"kind": kind, "data": data, "mode": mode, "mtime": mtime, "pre": True}
    answers = list(answers)

    def ensure_parents(p):
        parts = p.split("/")[:-1]
        cur = ""
        for c in parts:
            cur = cur + ("/" if cur else "") + c
            if cur not in tree:
                tree[cur] = {"kind": "d", "mode": 0o755, "implicit": True}
                loose.add(cur)
            touch_parent(cur)

    def touch_parent(p):
        # creating or deleting something inside a directory changes that directory's mtime
        par = p.rsplit("/", 1)[0] if "/" in p else None
        if par is not None and par in tree and not tree[par].get("open"):
            loose.add(par)

    pending_dirs = []
    deferred = []
    prompts = 0
    for e in entries:
        k = e["k"]
        rel = ("" if ignore_path else e["path"].lstrip("/")) + e["name"]
        if wdir:
            rel = wdir + "/" + rel
        rel = rel.rstrip("/") if k == "d" else rel
        # directories whose contents are over get their metadata now (END_OF_DIR): entries outside the top of the stack pop it
        while pending_dirs and not (e["path"].startswith(pending_dirs[-1][1])):
            d, _, de = pending_dirs.pop()
            tree[d]["open"] = False
            tree[d]["mode"] = de["perms"] & 0o7777 if de.get("unix", True) else 0o755
            tree[d]["mtime"] = de["mtime"]
            loose.discard(d)
        if k == "d":
            if ignore_path:
                continue
            if rel in tree:
                continue                       # existed: untouched
            ensure_parents(rel)
            tree[rel] = {"kind": "d", "open": True}
            touch_parent(rel)
            pending_dirs.append((rel, e["path"], e))
            continue
        if k == "f":
            if rel in tree and tree[rel]["kind"] != "d":
                exists = True
                if tree[rel]["kind"] == "l":
                    # existence test follows links
                    tgt = os.path.normpath(os.path.join(os.path.dirname(rel), tree[rel]["data"].decode("latin1")))
                    exists = tgt in tree
            else:
                exists = rel in tree
            if exists:
                if policy == "prompt":
                    while True:
                        prompts += 1
                        a = answers.pop(0) if answers else "n"
                        c = a[:1].lower() if a else "\n"
                        if c == "y":
                            go = True; break
                        if c in ("n", "\n", ""):
                            go = False; break
                        if c == "a":
                            policy = "all"; go = True; break
                        if c == "s":
                            policy = "skip"; go = False; break
                    if not go:
                        continue
                elif policy == "skip":
                    continue
            ensure_parents(rel)
            plain, _ = content_for(e)
            if e.get("mac") == "res":
                plain = b"R" * e.get("resfork", 40)
            node = {"kind": "f", "data": plain, "mtime": e["mtime"]}
            if e.get("level", 2) <= 1 and (not e.get("unix", True) or e.get("mac") is not None):
                node["mtime"] = 1262304000       # only the MS-DOS stamp of the level-0/1 header is recorded (2010-01-01 00:00:00)
            node["mode"] = (e.get("perms", 0o100644) & 0o7777) if (e.get("unix", True) and e.get("mac") is None) else 0o600
            tree[rel] = node
            touch_parent(rel)
            continue
        # link
        ensure_parents(rel)
        if dangerous(e["target"]):
            deferred.append((rel, e))
            tree[rel] = {"kind": "placeholder"}
            touch_parent(rel)
        else:
            tree[rel] = {"kind": "l", "data": e["target"].encode("latin1")}
            touch_parent(rel)
    while pending_dirs:
        d, _, de = pending_dirs.pop()
        tree[d]["open"] = False
        tree[d]["mode"] = de["perms"] & 0o7777 if de.get("unix", True) else 0o755
        tree[d]["mtime"] = de["mtime"]
        loose.discard(d)
    for rel, e in sorted(deferred, key=lambda x: -len(x[0])):
        tree[rel] = {"kind": "l", "data": e["target"].encode("latin1"), "dangerous": True}
        par = rel.rsplit("/", 1)[0] if "/" in rel else None
        if par is not None:
            loose.add(par)
    return tree, loose, prompts


def describe(space, case):
    ents = ", ".join("%s:%s%s%s" % (e["k"], e["path"], e["name"], ("->" + e["target"]) if e["k"] == "l" else ("(%o)" % e["perms"]) if "perms" in e else "") for e in case["entries"])
    return "C06 %s cmd=%s uid=%s%s%s [%s] pre=%s answers=%r filters=%s" % (space, case["cmd"], case.get("uid", 0), " umask=%o" % case["umask"] if case.get("umask") is not None else "", " nofile=%d" % case["nofile"] if case.get("nofile") else "", ents, [p[0] for p in case.get("pre", [])], case.get("answers", ""), case.get("filters", []))


def compare(tree_model, loose, actual, viol, site_prefix="c06", mask=0o777):
    for rel, node in tree_model.items():
        key = rel.encode("latin1")
        a = actual.get(key)
        if node["kind"] == "placeholder" or node.get("dangerous"):
            continue          # links with absolute or '..' targets are outside the guarantee
        if a is None:
            viol.append((site_prefix + "-missing", "%s (%s) is missing after extraction" % (rel, node["kind"])))
            continue
        kind = {"d": "d", "f": "f", "l": "l"}[node["kind"]]
        if a[0] != kind:
            viol.append((site_prefix + "-kind", "%s is %s, the archive says %s" % (rel, a[0], kind)))
            continue
        if kind == "f":
            if node.get("data") is not None and a[3] != node["data"]:
                viol.append((site_prefix + "-content", "%s has %r bytes, the archive says %d bytes (or content differs)" % (rel, None if a[3] is None else len(a[3]), len(node["data"]))))
            if node.get("mtime") and a[2] != node["mtime"] and not node.get("pre"):
                viol.append((site_prefix + "-file-mtime", "%s mtime %d, recorded %d" % (rel, a[2], node["mtime"])))
            if node.get("mode") is not None and (a[1] & mask) != (node["mode"] & mask):
                viol.append((site_prefix + "-file-mode", "%s mode %o, recorded %o" % (rel, a[1] & mask, node["mode"] & mask)))
        elif kind == "l":
            if not node.get("dangerous") and a[3] != node["data"]:
                viol.append((site_prefix + "-link-target", "%s -> %r, recorded %r" % (rel, a[3], node["data"])))
        else:
            if node.get("mode") is not None and (a[1] & 0o777) != (node["mode"] & 0o777):
                viol.append((site_prefix + "-dir-mode", "%s mode %o, expected %o" % (rel, a[1] & 0o777, node["mode"] & 0o777)))
            if node.get("mtime") and rel not in loose and a[2] != node["mtime"]:
                viol.append((site_prefix + "-dir-mtime", "directory %s mtime %d, recorded %d" % (rel, a[2], node["mtime"])))
    for key in actual:
        rel = key.decode("latin1")
        if rel not in tree_model:
            viol.append((site_prefix + "-unexpected", "%s exists after extraction but is not in the model" % rel))


def run_case(runner, space, case):
    arc = build(case["entries"])
    cmd = case["cmd"]
    pre = [(p[0], p[1], bytes.fromhex(p[2]) if p[2] is not None else None, p[3], p[4]) for p in case.get("pre", [])]
    answers = case.get("answers", [])
    stdin = "".join(a + "\n" for a in answers).encode() + b"n\n" * 4
    filters = [f.encode("latin1") for f in case.get("filters", [])]
    viol = []
    if cmd[0] == "p":
        r = runner.run(arc, [cmd, "../archive.lzh"] + filters, stdin=stdin, uid=case.get("uid", 0))
        want = b""
        quiet2 = "q2" in cmd or cmd.endswith("q")
        for e in case["entries"]:
            full = (e["path"].lstrip("/") + e["name"]).encode("latin1")
            if filters and not any(listrender.glob_match(f, (e["path"] + e["name"]).encode("latin1")) for f in filters):
                continue
            if e["k"] == "l":
                if not quiet2:
                    want += b"Symbolic Link " + full + b" -> " + e["target"].encode("latin1") + b"\n"
            elif e["k"] == "f":
                if not quiet2:
                    want += b"::::::::\n" + full + b"\n::::::::\n"
                plain, _ = content_for(e)
                if e.get("mac") == "res":
                    plain = b"R" * e.get("resfork", 40)
                want += plain
        if r.stdout != want:
            viol.append(("c06-print", "stdout of '%s' differs from banner+contents: got %d bytes, expected %d; head %r / %r" % (cmd, len(r.stdout), len(want), r.stdout[:80], want[:80])))
        if r.tree:
            viol.append(("c06-print-creates", "print created %r" % list(r.tree)[:3]))
        return {"transitions": 1, "outcome": hash(r.stdout), "nontrivial": bool(want), "violations": viol}
    sel = case["entries"]
    if filters:
        sel = [e for e in case["entries"] if any(listrender.glob_match(f, (e["path"] + e["name"]).encode("latin1")) for f in filters)]
    model_pre = [(p[0], p[1], p[2], p[3], p[4]) for p in pre]
    tree, loose, prompts = model(sel, cmd, model_pre, answers)
    if case.get("umask") is not None:
        # the mode of directories the archive does not list (created on the way) follows the process umask; the statement is
        # about recorded permissions only
        for node in tree.values():
            if node.get("implicit"):
                node["mode"] = None
    r = runner.run(arc, [cmd, "../archive.lzh"] + filters, stdin=stdin, pre=pre, uid=case.get("uid", 0), umask=case.get("umask"), nofile=case.get("nofile"))
    compare(tree, loose, r.tree, viol, mask=0o7777 if case.get("fullmode") else 0o777)
    # a dangerous link that lands in a directory whose recorded permissions forbid writing cannot be created at the end: outside the guarantee
    ro_dirs = [e["path"] for e in sel if e["k"] == "d" and not (e.get("perms", 0o755) & 0o200)]
    excused = any(e["k"] == "l" and dangerous(e["target"]) and any(e["path"].startswith(d) for d in ro_dirs) for e in sel) and case.get("uid")
    if r.status != "exit:0" and not excused:
        viol.append(("c06-exit-status", "extraction of a well-formed archive ended with %s; stderr %r stdout tail %r" % (r.status, r.stderr[:200], r.stdout[-120:])))
    nm = sum(1 for o in r.ops if cli.is_mutating(o))
    return {"transitions": max(1, nm), "outcome": hash(tuple(sorted((k, v[0], v[1], v[3]) for k, v in r.tree.items()))), "nontrivial": len(r.tree) > 0, "violations": viol,
            "states": [hash(tuple(sorted(r.tree)))]}
