"""C15 - members are independent of how other members were handled; readers are independent (E3)."""
from vlib import runner
import build

WRAP = "-Wl,--wrap=malloc -Wl,--wrap=calloc -Wl,--wrap=realloc -Wl,--wrap=free -Wl,--wrap=strdup -Wl,--wrap=fopen -Wl,--wrap=fdopen -Wl,--wrap=fclose"
runner.EXPLORER_KW['hist_explore'] = {'extra_ld': WRAP}


def run(ctx):
    b = build.ensure_explorer("hist_explore", "asan", extra_ld=WRAP)
    ctx.run_space(b, "histories", ["full=%d" % (6 if ctx.thorough else 5)], cpu_limit=60)
    ctx.assumptions += ["reference reader model of DESIGN.md appendix C (member table from the archive builder; directory stack; deferred list strictly-longer-first, LIFO among equals); extraction results are predicted from the state of the per-execution sandbox directory observed before the call"]
    return ctx.finish(
        rule="6 generated archives (3 files of different methods; sibling directories a/ and ab/; nested directories then a top-level file; safe + three dangerous links of different and equal path lengths; MacBinary/unknown-method/empty members; a member truncated in its data) x 3 directory policies x "
             "EVERY action vector over {nothing, read 1, read 7, read 4096, read 1+4096, read 7+7, read to end, check, extract} for the first 5 (thorough 6) entries (re-presented ones included), later entries extracted; three further next calls after the end; is_fake after every next. "
             "Every return value, byte and flag is compared with the model. non-trivial = distinct (archive, policy, used action prefix)",
        replay_fn=lambda rep: runner.replay_explorer(rep, quiet=True))


def replay(rep):
    return runner.replay_explorer(rep)
