"""C15 - members are independent of how other members were handled; readers are independent (E3)."""
from vlib import runner
import build

WRAP = "-Wl,--wrap=malloc -Wl,--wrap=calloc -Wl,--wrap=realloc -Wl,--wrap=free -Wl,--wrap=strdup -Wl,--wrap=fopen -Wl,--wrap=fdopen -Wl,--wrap=fclose"
runner.EXPLORER_KW['hist_explore'] = {'extra_ld': WRAP}
from props.C16 import WRAP as WRAP_WALK      # noqa: E402 (also registers how arc_walk is linked, for replays)


def run(ctx):
    b = build.ensure_explorer("hist_explore", "asan", extra_ld=WRAP)
    ctx.run_space(b, "histories", ["full=%d" % (6 if ctx.thorough else 5)], cpu_limit=60)
    # the same histories over a stream that has no skip callback (the library reads over what it skips), one level shallower
    ctx.run_space(b, "histories", ["full=%d" % (5 if ctx.thorough else 4), "noskip=1"], cpu_limit=60)
    ctx.run_space(b, "threads", ["preemptions=2", "stride=%d" % (1 if ctx.thorough else 5)], cpu_limit=600)
    if ctx.thorough:
        ctx.run_space(b, "threads", ["preemptions=3", "stride=17"], cpu_limit=1200)
    # free-running pass of the same thread bodies under ThreadSanitizer (a serialising scheduler hides races from the detector)
    t = build.ensure_explorer("hist_explore", "tsan", extra_ld=WRAP)
    ctx.run_space(t, "threads", ["free=1"], cpu_limit=600, shards=4, env={"TSAN_OPTIONS": "exitcode=88:halt_on_error=1"})
    # readers of different stream kinds one after another in one process (file, pipe, callbacks; then the file again)
    w = build.ensure_explorer("arc_walk", "asan", extra_ld=WRAP_WALK)
    ctx.run_space(w, "kinds", ["prop=15"], cpu_limit=60)
    ctx.assumptions += ["reference reader model of DESIGN.md appendix C (member table from the archive builder; directory stack; deferred list strictly-longer-first, LIFO among equals); extraction results are predicted from the state of the per-execution sandbox directory observed before the call"]
    return ctx.finish(
        rule="'kinds' (arc_walk, prop=15): each of the 8 walk archives x three walks is read from a seekable file and from a pipe before any other reader has run in the process; then for every ordered pair (first kind, file or pipe) a reader of the first kind runs to the end and the file/pipe reader must observe what it observed when it ran first; 6 generated archives (3 files of different methods; sibling directories a/ and ab/; nested directories then a top-level file; safe + three dangerous links of different and equal path lengths; MacBinary/unknown-method/empty members; a member truncated in its data) x 3 directory policies x "
             "EVERY action vector over {nothing, read 1, read 7, read 4096, read 1+4096, read 7+7, read to end, check, extract} for the first 5 (thorough 6) entries (re-presented ones included), later entries extracted; three further next calls after the end; is_fake after every next. "
             "'threads': 16 reader programs (4 archives x {check all, extract all, read all in 7-byte pieces, alternate check/extract with progress callbacks}) paired in all 136 unordered ways (quick: every fifth pair) on two pthreads under a cooperative scheduler whose scheduling points are the API boundaries and the library's calls into the caller (stream read, progress callback): ALL schedules with <= 2 preemptions (thorough: also <= 3 on every 17th pair, at most 400 000 schedules per pair); scheduling points inside bit-reader input are every 8th source call, each reader's observations compared with its solo run; plus one free-running ThreadSanitizer execution per pair. "
             "Every return value, byte and flag is compared with the model. non-trivial = distinct (archive, policy, used action prefix)",
        replay_fn=lambda rep: runner.replay_explorer(rep, quiet=True))


def replay(rep):
    return runner.replay_explorer(rep)
