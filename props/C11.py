"""C11 - returned paths are clean (E2)."""
from vlib import runner
import build
from props.C15 import WRAP      # also registers how hist_explore is linked, for replays


def run(ctx):
    b = build.ensure_explorer("arc_explore", "asan")
    ml = 9 if ctx.thorough else 7
    for c in range(12):
        # pair carriers enumerate every split point as well: one letter shorter
        ctx.run_space(b, "paths", ["carrier=%d" % c, "maxlen=%d" % (ml - 1 if c in (5, 6, 8) else ml)], cpu_limit=60)
    # every one of the 256 OS type bytes (some have rules of their own for names), strings up to 3 (thorough 4) bytes
    ctx.run_space(b, "paths", ["allos=1", "maxlen=%d" % (4 if ctx.thorough else 3)], cpu_limit=120)
    ctx.run_space(b, "paths", ["allos=1", "controls=1", "maxlen=%d" % (4 if ctx.thorough else 3)], cpu_limit=120)
    ctx.run_space(b, "longpaths", cpu_limit=120)
    # "every header the library returns": also the ones it returns when an allocation inside the header read has failed
    hb = build.ensure_explorer("hist_explore", "asan", extra_ld=WRAP)
    ctx.run_space(hb, "faults", ["full=%d" % (2 if ctx.thorough else 1), "leaks=0"], cpu_limit=120)
    ctx.assumptions += ["ref/ref_header.c normalise/path filter, bound to the 183 recorded header dumps of the corpus by ./check selftest"]
    return ctx.finish(
        rule="every byte string up to the length over {'.','/','\\\\',0xFF,NUL,'a'} (link carriers add '|') placed in 12 carriers (the last three supply the name or the path twice, a longer harmless one first): level-0/1 in-header name, 0x02 path alone, 0x01 name alone, directory path, "
             "level-1 name x 0x02 path pairs and level-2 path x name pairs at every split point, link name and link path x name pairs; each under a case-folding and a non-folding OS type; all 12 carriers again under each of the 256 OS type bytes with strings up to 3 (4) bytes, and once more over the alphabet {0x0E, 0x0F, '\\', 'A', 0x1F, 'Z'} (control bytes that are '.', '/' minus 0x20, next to letters that case folding touches). "
             "'longpaths': level-3 path and name headers of 255..65537 and 200000 bytes with a forbidden component ('..', '.', empty, '...', '..a', 'a..', './..') at the start, before offset 255, before 65535, in the middle and at the end. Oracle: the invariant on every returned (path, filename) and exact agreement with the reference normalisation/filter.  non-trivial = distinct (carrier, OS, bytes, split) with length > 1",
        replay_fn=lambda rep: runner.replay_explorer(rep, quiet=True))
