"""C08 - no archive bytes can make the library or tool touch invalid memory or abort (E2 under ASan/UBSan; CLI layer in E4)."""
from vlib import runner
import build
from props.C16 import WRAP


def run(ctx):
    b = build.ensure_explorer("arc_walk", "asan", extra_ld=WRAP)
    ctx.run_space(b, "mutate", ["full=%d" % (1 if ctx.thorough else 0)], cpu_limit=120)
    ctx.run_space(b, "kinds", ["prop=8", "stride=1"], cpu_limit=60)
    ctx.run_space(b, "extreme", cpu_limit=120)
    e = build.ensure_explorer("arc_explore", "asan")
    ctx.run_space(e, "integrity", ["seeds=%d" % (1000 if ctx.thorough else 24)], cpu_limit=60)
    ctx.run_space(e, "sweeps", cpu_limit=60)
    # the largest amounts a decoding step can produce (output buffers of the decoders), through the decoder explorer of C04
    dp = build.ensure_explorer("dec_pm", "asan")
    ctx.run_space(dp, "pm1-maxout", cpu_limit=60)
    try:
        from props import cli_c08
        cli_c08.run(ctx)
    except ImportError:
        pass
    ctx.assumptions += ["every other check of this framework also runs the library under the same sanitizers; extraction walks pass explicit output names (the library by itself does not confine header paths, see C10)"]
    return ctx.finish(
        rule="'mutate': for every header byte of every member of 7 generated archives (levels 0-3, all methods, links, MacBinary, SFX stub): substitution by 15 values (thorough: all 255), with and without a repaired checksum, the byte deleted, the byte duplicated; truncation at every header offset; every pair of length fields (total, name, compressed, original, first extended size) set to 11 boundary values; "
             "each byte string walked with four API patterns (list; read all in 7-byte pieces; check all; extract all) over three stream kinds; plus every cut of every archive x 3 walks x 5 stream kinds, the extreme-length space, the header perturbation space of C12 and the sweep space of C05 (OS types, sizes, long names, level-0/1 extended areas of every length 1..26 x 7 first bytes x 6 content variants). Oracle: no sanitizer report, no signal, every call returns. non-trivial = distinct (archive, member, position/field) classes",
        replay_fn=lambda rep: (__import__('vlib.cliprop', fromlist=['x']).replay_case(rep) if rep.get('kind') == 'cli' else runner.replay_explorer(rep, quiet=True)))


def replay(rep):
    from vlib import cliprop
    return cliprop.replay_case(rep) if rep.get('kind') == 'cli' else runner.replay_explorer(rep)
