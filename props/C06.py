"""C06 - extraction reproduces the archived tree: contents, names, times, modes, links (E4)."""
import itertools
from vlib import runner, cliprop, cli

T1, T2 = 1000000000, 1262304000
NAMES = ["a", "ab", "b", "c", "d"]
# kind letter -> entry template
KINDS = ["D755", "D555", "D700", "F644", "F400", "LS", "LD", "DI"]       # DI = implicit directory (no entry of its own)


def hx(b):
    return b.hex()


def gen_children(prefix, budget, depth):
    """yield lists of entries (directory-first, contiguous) using at most 'budget' archive entries, at least one"""
    def rec(i, budget_left):
        # children from position i on
        yield []
        if i >= 3 or budget_left <= 0:
            return
        name = NAMES[i]
        for kind in KINDS:
            if kind.startswith("D"):
                if depth >= 3:
                    continue
                path = prefix + name + "/"
                own = [] if kind == "DI" else [{"k": "d", "path": path, "name": "", "perms": 0o040000 | int(kind[1:], 8), "mtime": T2 if i % 2 else T1}]
                cost = len(own)
                for sub in gen_children(path, budget_left - cost, depth + 1):
                    if kind == "DI" and not sub:
                        continue
                    if kind == "DI" and sub[0]["path"] != path:
                        continue
                    head = own + sub
                    for rest in rec(i + 1, budget_left - len(head)):
                        yield head + rest
            else:
                if kind == "F644" or kind == "F400":
                    e = {"k": "f", "path": prefix, "name": name, "perms": 0o100000 | int(kind[1:], 8), "mtime": T1 if i % 2 else T2, "data": hx(("contents of %s%s\n" % (prefix, name)).encode())}
                elif kind == "LS":
                    e = {"k": "l", "path": prefix, "name": name, "target": "tgt/x", "mtime": T1}
                else:
                    e = {"k": "l", "path": prefix, "name": name, "target": "../esc", "mtime": T1}
                for rest in rec(i + 1, budget_left - 1):
                    yield [e] + rest
    for seq in rec(0, budget):
        if len(seq) <= budget:
            yield seq


def tree_cases(maxn):
    seen = set()
    for ents in gen_children("", maxn, 1):
        if not ents:
            continue
        key = repr(ents)
        if key in seen:
            continue
        seen.add(key)
        yield {"entries": ents, "cmd": "x", "uid": cli.NOBODY}


def fixed_trees():
    f = lambda p, n, perms=0o100644, t=T1, **kw: dict({"k": "f", "path": p, "name": n, "perms": perms, "mtime": t, "data": hx(("data %s%s" % (p, n)).encode())}, **kw)
    d = lambda p, perms=0o040755, t=T2: {"k": "d", "path": p, "name": "", "perms": perms, "mtime": t}
    flat = [f("", "one.txt"), f("", "two.bin", 0o100600, T2, blob=["lh5", 3000, 3]), f("", "three", 0o100444, T1, blob=["lzs", 700, 4])]
    nested = [d("ro/", 0o040555), f("ro/", "inside", 0o100400), d("ro/deep/", 0o040500, T1), f("ro/deep/", "leaf", 0o100644, T2, blob=["pm2", 1200, 5]), f("", "top", blob=["lh1", 900, 6])]
    links = [d("dir/"), f("dir/", "real"), {"k": "l", "path": "dir/", "name": "safe", "target": "real", "mtime": T1}, {"k": "l", "path": "", "name": "dang", "target": "../out", "mtime": T1},
             {"k": "l", "path": "dir/", "name": "abs", "target": "/etc/passwd", "mtime": T1}, f("", "last", 0o100640)]
    # relative targets with '.' and empty components are ordinary (safe) targets: created at once, before the directory's metadata
    dotlinks = [d("proj/", 0o040755), f("proj/", "real"),
                {"k": "l", "path": "proj/", "name": "cur", "target": "./real", "mtime": T1}, {"k": "l", "path": "proj/", "name": "viadot", "target": "sub/./data", "mtime": T1},
                {"k": "l", "path": "proj/", "name": "dots", "target": "...", "mtime": T1},
                d("proj/sub/", 0o040750, T1), f("proj/sub/", "data"), {"k": "l", "path": "proj/sub/", "name": "dbl", "target": ".//data", "mtime": T1},
                {"k": "l", "path": "", "name": "top", "target": "proj/./sub//data", "mtime": T1}, f("", "last")]
    mac = [f("", "Mac File", mac="data", level=2), f("", "Icon", mac="res", level=2), f("", "plain", mac="", level=2), f("", "lvl1", level=1), f("", "LEVEL0", level=0),
           f("", "nounix", level=1, unix=False)]
    return {"flat": flat, "nested": nested, "links": links, "mac": mac, "dotlinks": dotlinks}


def option_cases(thorough):
    trees = fixed_trees()
    letters = ["f", "q", "q0", "q1", "q2", "i", "w=OUT", "v"]
    for tname, ents in trees.items():
        for r in range(0, 4 if thorough else 3):
            for combo in itertools.permutations(letters, r):
                if sum(1 for c in combo if c.startswith("q")) > 1:
                    continue
                if "w=OUT" in combo and combo[-1] != "w=OUT":
                    continue            # w= consumes the rest of the option word
                for c0 in ("x", "e"):
                    yield {"entries": ents, "cmd": c0 + "".join(combo), "uid": cli.NOBODY if tname != "mac" else 0}


def overwrite_cases(thorough):
    ents = fixed_trees()["flat"]
    names = ["one.txt", "two.bin", "three"]
    answers_alpha = ["y", "n", "a", "s", "", "junk", "Yes", "N"]
    for mask in range(1, 8):
        pre = [[names[i], "f", hx(b"old %d" % i), 0o644, 900000000] for i in range(3) if mask & (1 << i)]
        nprompts = len(pre)
        for L in range(0, nprompts + 1):
            for ans in itertools.product(answers_alpha, repeat=L):
                # "junk" is followed by a decisive answer
                a = []
                for x in ans:
                    a.append(x)
                    if x == "junk":
                        a.append("y")
                yield {"entries": ents, "cmd": "x", "pre": pre, "answers": a}
        for cmd in ("xf", "xq", "xq0", "xq1", "xq2", "eq2", "xq0v", "xvq0", "eq"):
            yield {"entries": ents, "cmd": cmd, "pre": pre}
    # a pre-existing link at an output name (to an existing and to a missing target)
    for tgt in ("one.txt", "missing"):
        pre = [["one.txt", "f", hx(b"old"), 0o644, 900000000], ["two.bin", "l", hx(tgt.encode()), None, None]]
        for a in (["y", "y"], ["n", "n"], ["a"], ["s"]):
            yield {"entries": ents, "cmd": "x", "pre": pre, "answers": a}


def mac_cases(thorough):
    for dl in (0, 1, 127, 128, 129, 255, 256, 384, 1000):
        for rl in (0, 40, 128, 256):
            for level in (1, 2):
                kind = "res" if dl == 0 and rl else ("data" if rl == 0 else "both")
                if dl == 0 and rl == 0:
                    kind = "data"
                ents = [{"k": "f", "path": "", "name": "Mac %d-%d" % (dl, rl), "perms": 0o100644, "mtime": T1 if level == 2 else T2, "data": hx(bytes((i * 7 + 3) & 0xFF for i in range(dl))), "mac": kind, "resfork": rl, "level": level},
                        {"k": "f", "path": "", "name": "after", "perms": 0o100644, "mtime": T1, "data": hx(b"next member")}]
                for cmd in ("xf", "pq2"):
                    yield {"entries": ents, "cmd": cmd}


    # the envelope carries local time: Macs east and west of Greenwich (whole, half and quarter hour zones up to +-12/14 h)
    for tz in (-12 * 3600, -5 * 3600, -900, 900, 5 * 3600 + 1800, 9 * 3600, 14 * 3600):
        for level in (1, 2):
            ents = [{"k": "f", "path": "", "name": "Zone %d" % tz, "perms": 0o100644, "mtime": T1 if level == 2 else T2, "data": hx(bytes((i * 11 + 1) & 0xFF for i in range(300))), "mac": "both", "resfork": 40, "level": level, "mactz": tz},
                    {"k": "f", "path": "", "name": "after", "perms": 0o100644, "mtime": T1, "data": hx(b"next member")}]
            for cmd in ("xf", "pq2"):
                yield {"entries": ents, "cmd": cmd}


def setid_cases(thorough):
    """set-user-id, set-group-id and sticky bits are permission bits too; the run is made as root so that the recorded owner can be set"""
    for perms in (0o104755, 0o102755, 0o106711, 0o101644, 0o107777, 0o104000):
        for level in (2, 1, 0):
            ents = [{"k": "f", "path": "", "name": "tool", "perms": perms, "mtime": T1, "data": hx(b"#!/bin/sh\n"), "level": level}, {"k": "f", "path": "", "name": "plain", "perms": 0o100644, "mtime": T1, "data": hx(b"x"), "level": level}]
            for cmd in ("xf", "xq"):
                yield {"entries": ents, "cmd": cmd, "uid": 0, "fullmode": True}


def relocation_cases(thorough):
    """w=OUT while directories of the same names already exist in the working directory: they must stay untouched"""
    trees = fixed_trees()
    for tname in ("nested", "links"):
        ents = trees[tname]
        dirs = sorted(set(e["path"].split("/")[0] for e in ents if e["path"]))
        pre = [[d, "d", None, 0o750, 900000000] for d in dirs] + [["top", "f", hx(b"keep me"), 0o640, 900000001]]
        for cmd in ("xfw=OUT", "xqw=OUT", "xfiw=OUT", "efw=OUT"):
            yield {"entries": ents, "cmd": cmd, "pre": pre, "uid": 0}


def glob_paths():
    out = []
    for L in range(1, 6):
        for s in itertools.product("ab/", repeat=L):
            s = "".join(s)
            if s.startswith("/") or s.endswith("/") or "//" in s:
                continue
            out.append(s)
    return out


def glob_cases(thorough):
    paths = glob_paths()
    ents = []
    for p in paths:
        i = p.rfind("/")
        ents.append({"k": "f", "path": p[:i + 1], "name": p[i + 1:], "perms": 0o100644, "mtime": T1, "data": hx(p.encode())})
    for L in range(1, 5 if thorough else 4):
        for pat in itertools.product("ab*?/", repeat=L):
            yield {"entries": ents, "cmd": "pq2", "filters": ["".join(pat)]}
    for pats in (["a*", "*b"], ["?", "*/?"], ["a/b", "b/a", "nomatch"]):
        yield {"entries": ents, "cmd": "pq2", "filters": pats}
        free = [e for e in ents if (e["path"] + e["name"]) in ("b", "ab", "bb", "a/a", "a/b", "a/ab", "ba/b", "ba/a/b", "aa/b")]
        yield {"entries": free, "cmd": "xf", "filters": pats}
    # wildcard arguments select directory entries too (their stored path is matched): a selected directory is created with its
    # recorded mode and time, an unselected one only as far as its selected contents need it
    trees = fixed_trees()
    for tname in ("nested", "links", "dotlinks"):
        for pats in (["*"], ["ro/*"], ["ro/"], ["ro/deep/"], ["dir/"], ["dir/*"], ["proj/*"], ["proj/"], ["proj/sub/"], ["*/"], ["*/*/"], ["top"], ["*a*"], ["ro/", "ro/inside"], ["proj/", "proj/cur"]):
            for cmd in ("xf", "xq"):
                yield {"entries": trees[tname], "cmd": cmd, "filters": pats, "uid": cli.NOBODY}


def print_cases(thorough):
    for c in tree_cases(3):
        for cmd in ("p", "pq", "pq1"):
            yield {"entries": c["entries"], "cmd": cmd}
    for ents in fixed_trees().values():
        if any(e.get("mac") is not None for e in ents):
            continue
        for cmd in ("p", "pq2", "pv"):
            yield {"entries": ents, "cmd": cmd}


def environment_cases(thorough):
    """the process environment: umask values (recorded permissions are applied whatever the umask), a low descriptor limit with
    hundreds of members (nothing may stay open per member)"""
    trees = fixed_trees()
    for tname in ("flat", "nested", "links", "mac"):
        for um in (0o000, 0o027, 0o077):
            for cmd in ("xf", "xq", "xfi"):
                yield {"entries": trees[tname], "cmd": cmd, "uid": cli.NOBODY if tname != "mac" else 0, "umask": um}
    for c in many_cases(False):
        d = dict(c); d["nofile"] = 24
        yield d


def preexisting_kind_cases(thorough):
    """objects of another kind already sitting at the output paths of link and file members: regular file, dangling link, link to a
    file inside the tree; the archive's object replaces them under the overwrite-all policies"""
    f = lambda p, n, **kw: dict({"k": "f", "path": p, "name": n, "perms": 0o100644, "mtime": T1, "data": hx(("new %s%s" % (p, n)).encode())}, **kw)
    ents = [{"k": "d", "path": "dir/", "name": "", "perms": 0o040755, "mtime": T2}, f("dir/", "real"), {"k": "l", "path": "dir/", "name": "safe", "target": "real", "mtime": T1},
            {"k": "l", "path": "", "name": "top", "target": "dir/real", "mtime": T1}, f("", "last")]
    objs = {"file": lambda: ("f", hx(b"old"), 0o644, 900000000), "dangling": lambda: ("l", hx(b"nowhere"), None, None), "tofile": lambda: ("l", hx(b"other"), None, None),
            "dangling2": lambda: ("l", hx(b"../gone/x"), None, None)}
    spots = ("dir/safe", "top", "last", "dir/real")
    import itertools
    for n in (1, 2):
        for where in itertools.combinations(spots, n):
            for kinds in itertools.product(sorted(objs), repeat=n):
                pre = [["dir", "d", None, 0o755, 900000000], ["other", "f", hx(b"other file"), 0o644, 900000000], ["dir/other", "f", hx(b"other file 2"), 0o644, 900000000]]
                for w, kd in zip(where, kinds):
                    o = objs[kd]()
                    pre.append([w, o[0], o[1], o[2], o[3]])
                for cmd in ("xf", "xq1"):
                    yield {"entries": ents, "cmd": cmd, "pre": pre}


def time_cases(thorough):
    """recorded modification times over the whole 32-bit range (seconds since 1970, unsigned): files and directories, every level"""
    f = lambda p, n, t, **kw: dict({"k": "f", "path": p, "name": n, "perms": 0o100644, "mtime": t, "data": hx(b"x")}, **kw)
    d = lambda p, t, perms=0o040755, **kw: dict({"k": "d", "path": p, "name": "", "perms": perms, "mtime": t}, **kw)
    for t in (1, 86399, 86400, 2 ** 31 - 2, 2 ** 31 - 1, 2 ** 31, 2 ** 31 + 1, 3000000000, 4102444800, 2 ** 32 - 2, 2 ** 32 - 1):
        for level in (2, 1, 0):
            for cmd in ("xf", "xq2"):
                yield {"entries": [d("dir/", t, level=level), f("dir/", "f", t, level=level), d("dir/ro/", t - 1 if t > 1 else 2, 0o040555, level=level), f("", "g", t, level=level)], "cmd": cmd, "uid": cli.NOBODY}


def many_cases(thorough):
    """archives with hundreds of entries of one kind: counters, stacks and lists inside the tool and the library pass 255/256"""
    f = lambda p, n, perms=0o100644, t=T1, **kw: dict({"k": "f", "path": p, "name": n, "perms": perms, "mtime": t, "data": hx(("d %s%s" % (p, n)).encode())}, **kw)
    d = lambda p, perms=0o040755, t=T2: {"k": "d", "path": p, "name": "", "perms": perms, "mtime": t}
    for n in (255, 256, 257, 300) + ((600,) if thorough else ()):
        perms = (0o040755, 0o040700, 0o040555, 0o040750)
        sib = []
        for i in range(n):
            sib += [d("d%03d/" % i, perms[i % 4], T1 + i * 2), f("d%03d/" % i, "f", 0o100644 if i % 3 else 0o100400, T2 + i * 2)]
        yield {"entries": sib, "cmd": "xf", "uid": cli.NOBODY}
        yield {"entries": sib, "cmd": "xq", "uid": cli.NOBODY}
        yield {"entries": [f("", "file%03d" % i, 0o100600 + (i % 8) * 8, T1 + i * 2) for i in range(n)], "cmd": "x", "uid": cli.NOBODY}
        links = [f("", "real")] + [{"k": "l", "path": "", "name": "s%03d" % i, "target": "real", "mtime": T1} for i in range(n)]
        yield {"entries": links, "cmd": "xf", "uid": cli.NOBODY}
        dang = [{"k": "l", "path": "", "name": "g%03d" % i, "target": "../o%d" % i, "mtime": T1} for i in range(n)] + [f("", "after")]
        yield {"entries": dang, "cmd": "xf", "uid": cli.NOBODY}
    for depth in (20, 60):
        nest = []
        p = ""
        for i in range(depth):
            p += "n%d/" % (i % 10)
            nest.append(d(p, 0o040755 if i % 2 else 0o040555, T1 + i * 2))
        nest.append(f(p, "leaf"))
        yield {"entries": nest, "cmd": "xf", "uid": cli.NOBODY}


def run(ctx):
    T = ctx.thorough
    cliprop.run_space(ctx, "props.cli_c06", "tree-shapes", tree_cases(5 if T else 4), chunk=128)
    cliprop.run_space(ctx, "props.cli_c06", "options", option_cases(T), chunk=32)
    cliprop.run_space(ctx, "props.cli_c06", "overwrite", overwrite_cases(T), chunk=64)
    cliprop.run_space(ctx, "props.cli_c06", "macbinary", mac_cases(T), chunk=16)
    cliprop.run_space(ctx, "props.cli_c06", "setid", setid_cases(T), chunk=4)
    cliprop.run_space(ctx, "props.cli_c06", "relocation", relocation_cases(T), chunk=4)
    cliprop.run_space(ctx, "props.cli_c06", "wildcards", glob_cases(T), chunk=8)
    cliprop.run_space(ctx, "props.cli_c06", "print", print_cases(T), chunk=64)
    cliprop.run_space(ctx, "props.cli_c06", "many", many_cases(T), chunk=1)
    cliprop.run_space(ctx, "props.cli_c06", "times", time_cases(T), chunk=4)
    cliprop.run_space(ctx, "props.cli_c06", "environment", environment_cases(T), chunk=2)
    cliprop.run_space(ctx, "props.cli_c06", "preexisting-kinds", preexisting_kind_cases(T), chunk=8)
    # the three library directory policies: every entry of 8 generated archives extracted through lha_reader_extract with the
    # header's own names; resulting tree compared with the member table (modes and mtimes of directories for the deferring policies)
    import build
    from props.C15 import WRAP
    hb = build.ensure_explorer("hist_explore", "asan", extra_ld=WRAP)
    ctx.run_space(hb, "histories", ["full=1", "tree=1", "treeonly=1"], cpu_limit=60, shards=4)
    ctx.assumptions += ["extraction model of DESIGN.md appendix E; trees are serialised directory-first and contiguous; runs that involve read-only directories are made as uid 65534 so that permission bits really refuse writes",
                        "excluded as the statement says: dangerous links' targets and the mtimes of directories that receive one; mtimes of implicitly created parent directories"]
    return ctx.finish(
        rule="'tree-shapes': ALL trees with up to 4 (thorough 5) archive entries, up to 3 children per directory, depth <= 3, node kinds {dir 0755/0555/0700, implicit dir, file 0644/0400, safe link, dangerous link}, sibling names a/ab/b, two timestamps, extracted with 'x' unprivileged; "
             "'options': 4 fixed trees (flat with lh5/lzs members, nested read-only, links, MacBinary/level-0/1 members) x every ordered option word of up to 2 (3) letters from {f,q0,q1,q2,i,w=OUT,v} x {x,e}; "
             "'overwrite': every subset of pre-existing members x every answer string up to the number of prompts over {y,n,a,s,empty,junk,Yes,N}, plus f/q; 'wildcards': every pattern up to length 3 (4) over {a,b,*,?,/} against 100+ stored paths; 'macbinary': MacLHA members with data/resource fork lengths around multiples of 128 (envelope recognised <=> declared length is the 128-rounded sum) under xf and pq2, envelope times in zones from -12 h to +14 h; 'setid': set-id and sticky bits in the recorded mode, extracted as root (all 12 mode bits compared); 'print': p/pq/pq1 over all trees of up to 3 entries; 'environment': the four fixed trees under umask 000/027/077, the 'many' archives under a descriptor limit of 24; 'preexisting-kinds': a regular file, a dangling link or a link to another file already present at one or two of the output paths of link and file members, under xf and xq1; 'times': recorded times 1, 86399/86400, 2^31-2..2^31+1, 3x10^9, 2100-01-01, 2^32-2, 2^32-1 on files and directories at levels 0/1/2; 'many': 255/256/257/300 (600) sibling directories with files, plain files, safe links and dangerous links in one archive, directory chains 20 and 60 deep. "
             "Oracle: final tree == model tree on content, mtime, mode & 0777, link target, directory mode and mtime; stdout == banner + bytes for p. non-trivial = runs that created at least one object / printed",
        replay_fn=lambda rep: (cliprop.replay_case(rep) if rep.get('kind') == 'cli' else runner.replay_explorer(rep, quiet=True)))


def replay(rep):
    return cliprop.replay_case(rep) if rep.get('kind') == 'cli' else runner.replay_explorer(rep)
