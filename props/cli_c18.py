"""C18 judge: archive-derived text printed by the tool is printable ASCII only."""
import struct
from vlib import lzhfmt, cli

MODES = ["l", "lv", "v", "vv", "t", "x", "xn", "xq0", "xq1", "xq2", "p", "pq"]
OK = set(range(0x20, 0x7F)) | {0x0A, 0x0D, 0x09}
DATA = b"printable member data\n"
CRC = lzhfmt.crc16(DATA)
T = 1262304000


def plain_member(name, level=1):
    if level <= 1:
        return lzhfmt.build_header(level, b"-lh0-", packed=len(DATA), size=len(DATA), crc=CRC, name=name, time=0x3C21A000) + DATA
    return lzhfmt.build_header(level, b"-lh0-", packed=len(DATA), size=len(DATA), crc=CRC, time=T, exts=[(1, name)]) + DATA


def put(base, pos, b):
    """insert byte b into base at first / middle / last"""
    i = 0 if pos == 0 else (len(base) // 2 if pos == 1 else len(base))
    return base[:i] + bytes([b]) + base[i:]


def crafted(case):
    f, b, pos, kind, level = case["field"], case["byte"], case.get("pos", 0), case["kind"], case["level"]
    perm_l = struct.pack("<H", 0o120777)
    perm_d = struct.pack("<H", 0o040755)
    perm_f = struct.pack("<H", 0o100644)
    method = b"-lh0-" if kind == "file" else b"-lhd-"
    size = len(DATA) if kind == "file" else 0
    data = DATA if kind == "file" else b""
    crc = CRC if kind == "file" else 0
    exts = []
    name = b""
    if f == "inname":
        base = {"file": b"dir\\name.txt", "dir": b"dir\\sub\\", "link": b"lnk|dir/tgt"}[kind]
        name = put(base, pos, b)
        if kind == "link":
            exts = [(0x50, perm_l)]
        lvl = level if level <= 1 else 1
        if lvl == 0:
            area = lzhfmt.unix_area(T, {"file": 0o100644, "dir": 0o040755, "link": 0o120777}[kind], 1000, 1000)
            return lzhfmt.build_header(0, method, packed=size, size=size, crc=crc, name=name, area=area, time=0x3C21A000) + data
        return lzhfmt.build_header(1, method, packed=size, size=size, crc=crc, name=name, exts=exts, time=0x3C21A000) + data
    if f == "name01":
        nm = put(b"name.txt" if kind != "link" else b"lnk|tgt", pos, b)
        exts = [(2, b"dir\xff"), (1, nm)] if kind != "dir" else [(2, put(b"dir\xffsub\xff", pos, b))]
        if kind == "link":
            exts.append((0x50, perm_l))
    elif f == "path02":
        pth = put(b"dir\xffsub\xff", pos, b)
        exts = [(2, pth)] + ([(1, b"name.txt")] if kind == "file" else [(1, b"lnk|tgt"), (0x50, perm_l)] if kind == "link" else [])
    elif f == "target":
        if kind != "link":
            return None
        exts = [(2, b"lnk|ta\xff"), (1, put(b"rget", pos, b)), (0x50, perm_l)] if case.get("viapath") else [(1, put(b"lnk|target", 4 + pos * 3, b) if pos else b"lnk|" + bytes([b]) + b"target"), (0x50, perm_l)]
    elif f in ("user", "group", "user+group"):
        if f == "user+group":
            exts = [(1, b"name.txt"), (0x53, put(b"owner", pos, b)), (0x52, put(b"grp", pos, b)), (0x50, perm_f), (0x51, struct.pack("<HH", 100, 1000))]
        else:
            exts = [(1, b"name.txt"), (0x53 if f == "user" else 0x52, put(b"owner", pos, b)), (0x50, perm_f), (0x51, struct.pack("<HH", 100, 1000))]
        method, size, data, crc = b"-lh0-", len(DATA), DATA, CRC
    elif f == "long":
        # strings at and beyond the sizes of fixed formatting buffers, the hostile byte far inside them
        L, at, which = case["len"], case["at"], case["which"]
        body = bytearray(b"abcdefghij"[i % 10] for i in range(L))
        body[min(at, L - 1) if at >= 0 else L + at] = b
        body = bytes(body)
        if which == "name":
            exts = [(2, b"dir\xff"), (1, body)]
        elif which == "path":
            exts = [(2, body + b"\xff"), (1, b"name.txt")]
        elif which == "pathparts":
            exts = [(2, body[:L // 2] + b"\xff" + body[L // 2:] + b"\xff"), (1, b"name.txt")]
        elif which == "target":
            exts = [(1, b"lnk|" + body), (0x50, perm_l)]
            method, size, data, crc = b"-lhd-", 0, b"", 0
        elif which == "user":
            exts = [(1, b"name.txt"), (0x53, body), (0x52, b"grp"), (0x50, perm_f), (0x51, struct.pack("<HH", 100, 1000))]
        elif which == "group":
            exts = [(1, b"name.txt"), (0x52, body), (0x50, perm_f), (0x51, struct.pack("<HH", 100, 1000))]
    elif f == "percent":
        # conversion specifications in archive-derived strings are text: they come out as they are
        spec = case["spec"].encode()
        which = case["which"]
        if which == "name":
            exts = [(2, b"dir\xff"), (1, b"n" + spec + b".txt")]
        elif which == "path":
            exts = [(2, b"p" + spec + b"\xff"), (1, b"name.txt")]
        elif which == "target":
            exts = [(1, b"lnk|t" + spec), (0x50, perm_l)]
            method, size, data, crc = b"-lhd-", 0, b"", 0
        elif which == "user":
            exts = [(1, b"name.txt"), (0x53, b"u" + spec), (0x52, b"g" + spec), (0x50, perm_f), (0x51, struct.pack("<HH", 100, 1000))]
        elif which == "inname":
            return lzhfmt.build_header(1, b"-lh0-", packed=len(DATA), size=len(DATA), crc=CRC, name=b"d" + spec + b"\\n" + spec, time=0x3C21A000) + DATA
    elif f == "hdrbyte":
        # any single byte of a plain member's header (no Unix metadata, so that the OS column shows) replaced by the hostile value,
        # additive checksum of levels 0/1 re-made: whatever field the byte belongs to, its rendering must be printable
        lvl = case["level"]
        if lvl <= 1:
            h = bytearray(lzhfmt.build_header(lvl, b"-lh0-", packed=len(DATA), size=len(DATA), crc=CRC, name=b"plain.txt", time=0x3C21A000, os=ord("M")))
        else:
            h = bytearray(lzhfmt.build_header(lvl, b"-lh0-", packed=len(DATA), size=len(DATA), crc=CRC, time=T, exts=[(1, b"plain.txt")], os=ord("M")))
        at = case["at"]
        if at >= len(h):
            return None
        h[at] = b
        if lvl <= 1:
            h[1] = sum(h[2:2 + h[0]]) & 0xFF
        return bytes(h) + DATA
    elif f == "methodN":
        m = bytearray(b"-lh0-")
        m[case["pos5"]] = b
        exts = [(1, b"name.txt")]
        return lzhfmt.build_header(2, bytes(m), packed=len(DATA), size=len(DATA), crc=CRC, time=T, exts=exts) + DATA
    lvl = level if level >= 2 else 2
    return lzhfmt.build_header(lvl, method, packed=size, size=size, crc=crc, time=T, exts=exts) + data


def build(case):
    if case["field"] == "method1":
        first = lzhfmt.build_header(case["level"] if case["level"] <= 1 else 1, b"-lh" + bytes([case["byte"]]) + b"-", packed=len(DATA), size=len(DATA), crc=CRC, name=b"first.txt", time=0x3C21A000) + DATA
        return first + plain_member(b"second.txt") + plain_member(b"third.txt", 2)
    c = crafted(case)
    if c is None:
        return None
    if case.get("member", 1) == 0:
        return c + plain_member(b"second.txt") + plain_member(b"third.txt", 2)
    return plain_member(b"first.txt") + plain_member(b"second.txt", 2) + c


def describe(space, case):
    return "C18 %s field=%s byte=0x%02x pos=%s kind=%s level=%s member=%s%s" % (space, case["field"], case["byte"], case.get("pos", case.get("pos5")), case["kind"], case["level"], case.get("member", 1),
                                                                              " which=%s len=%s at=%s" % (case["which"], case["len"], case["at"]) if case["field"] == "long" else " at=%s" % case["at"] if case["field"] == "hdrbyte" else " answers=%r" % case["answers"] if case.get("answers") is not None else " which=%s spec=%r" % (case["which"], case["spec"]) if case["field"] == "percent" else "")


def run_case(runner, space, case):
    arc = build(case)
    if arc is None:
        return {"transitions": 0}
    viol = []
    outcome = 0
    n = 0
    modes = case.get("modes") or MODES
    if case["field"] in ("method1", "methodN"):
        # a byte that turns the field into the name of a real compression method makes 'p' decode the (stored) data
        # with that method: what it prints then is file data, which the statement excludes
        m = bytearray(b"-lh0-")
        m[3 if case["field"] == "method1" else case["pos5"]] = case["byte"]
        if bytes(m) in (b"-lh1-", b"-lh4-", b"-lh5-", b"-lh6-", b"-lh7-", b"-lhx-", b"-lhd-"):
            modes = [x for x in modes if x[0] != "p"]
    pre = []
    if case.get("answers") is not None:
        # the member's file already exists, so that plain 'x' asks what to do; the answers come from standard input
        nm = put(b"name.txt", case["pos"], case["byte"])
        pre = [(b"dir/" + nm, "f", b"old", 0o644, 900000000), (b"first.txt", "f", b"old", 0o644, 900000000), (b"second.txt", "f", b"old", 0o644, 900000000), (b"third.txt", "f", b"old", 0o644, 900000000)]
    for mode in modes:
        r = runner.run(arc, [mode, "../archive.lzh"], want_trees=False, pre=pre, stdin=(case.get("answers") or "").encode())
        n += 1
        outcome = hash((outcome, r.stdout, r.status))
        for name, stream in (("stdout", r.stdout), ("stderr", r.stderr)):
            bad = [c for c in stream if c not in OK]
            if bad:
                i = next(k for k, c in enumerate(stream) if c not in OK)
                viol.append(("c18-nonprintable-%s-%s" % (name, "list" if mode[0] in "lv" else "extract" if mode[0] in "x" else "test" if mode[0] == "t" else "print"),
                             "mode %s: %s carries byte 0x%02x at offset %d: %r" % (mode, name, stream[i], i, stream[max(0, i - 30):i + 10])))
        if case["field"] == "percent" and mode in ("l", "lv", "v", "vv", "t", "x", "xq1") and not (case["which"] == "user" and mode not in ("v", "vv", "lv", "l")) and not (case["which"] == "target" and mode in ("t",)):
            # deterministic half of the oracle: the specification itself must be in the output (nothing was substituted for it)
            if case["which"] != "user" and case["spec"].encode() not in r.stdout + r.stderr:
                viol.append(("c18-conversion-interpreted", "mode %s: %r is not in the output, something was substituted for it: %r" % (mode, case["spec"], (r.stdout + r.stderr)[-160:])))
        if not r.status.startswith("exit:") or r.status in ("exit:86", "exit:87"):
            viol.append(("c18-abnormal-exit", "mode %s: %s %r" % (mode, r.status, r.stderr[:300])))
    return {"transitions": n, "outcome": outcome, "nontrivial": True, "violations": viol}
