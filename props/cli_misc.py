"""CLI layers of C07 (verdict lines and exit status), C08 (no abnormal termination on mutated archives), C13/C16 (file vs stdin)."""
import re
from vlib import cli, lzhfmt
from vlib.arcpy import entry

QUICKVALS = [0x00, 0x01, 0x02, 0x03, 0x04, 0x1F, 0x20, 0x2D, 0x2F, 0x5C, 0x7C, 0x7F, 0x80, 0xFE, 0xFF]


def three_members():
    a = entry("f", b"", b"alpha.txt", b"first member data\n" * 3, level=1)
    b = entry("f", b"dir/", b"beta.bin", level=2, method=b"-lh5-", blob=cli.blob("-lh5-", 900, 2))
    c = entry("f", b"", b"gamma", level=0, method=b"-lz5-", blob=cli.blob("-lz5-", 400, 3))
    return [a, b, c]


def _plain3():
    return [b"first member data\n" * 3, cli.blob("-lh5-", 900, 2)[0], cli.blob("-lz5-", 400, 3)[0]]


PLAIN3 = _plain3()


def corrupt(member, how):
    m = bytearray(member)
    if how == "crc":
        # flip a bit of the last data byte (stored/compressed data sits at the end of the member)
        m[-1] ^= 0x10
    elif how == "middle":
        m[len(m) - max(2, (len(m) // 3))] ^= 0xFF
    return bytes(m)


def seeds_c08():
    s1 = b"".join(three_members())
    s2 = entry("d", b"d/", b"", level=1) + entry("f", b"d/", b"f", b"x" * 20, level=2) + entry("l", b"d/", b"l", target=b"f", level=2) + entry("l", b"", b"dang", target=b"../up", level=1)
    s3 = entry("f", b"", b"m3", b"level three", level=3) + entry("f", b"", b"L0.TXT", b"level zero", level=0, unix=False)
    return [s1, s2, s3]


def describe(space, case):
    return "%s %s" % (space, {k: v for k, v in case.items() if k != "arc"})


def parse_names(stdout, word_ok, word_bad):
    good, bad = set(), set()
    for seg in stdout.replace(b"\n", b"\r").split(b"\r"):
        m = re.match(rb"^(.*?)\t- (Tested|Melted|CRC error|Failure)\s*$", seg)
        if m:
            (good if m.group(2) in (b"Tested", b"Melted") else bad).add(m.group(1))
    return good, bad


def run_case(runner, space, case):
    viol = []
    if space == "c07" and "many" in case:
        # N small stored members of which the listed number (taken from the front) are damaged: the exit status is a
        # verdict about the whole run and may not depend on how many members failed
        n, bad = case["many"], case["bad"]
        arc = b"".join((corrupt if i < bad else (lambda m, h: m))(entry("f", b"", b"m%04d" % i, b"data %04d\n" % i, level=i % 3), "crc") for i in range(n))
        r = runner.run(arc, [case["cmd"], "../archive.lzh"], stdin=b"", want_trees=False)
        good, badset = parse_names(r.stdout, None, None)
        if "q2" not in case["cmd"]:
            rep_bad = [i for i in range(bad) if b"m%04d" % i in good]
            if rep_bad:
                viol.append(("c07-cli-bad-reported-good", "%s: damaged members %r reported good" % (case["cmd"], rep_bad[:5])))
            miss = [i for i in range(bad, n) if b"m%04d" % i not in good]
            if miss:
                viol.append(("c07-cli-good-not-reported", "%s: intact members %r have no Tested/Melted line" % (case["cmd"], miss[:5])))
        if (bad > 0) != (r.status != "exit:0"):
            viol.append(("c07-cli-exit-status", "%s on %d members of which %d are damaged: %s" % (case["cmd"], n, bad, r.status)))
        if not r.status.startswith("exit:") or r.status in ("exit:86", "exit:87"):
            viol.append(("c07-cli-abnormal", "%s %r" % (r.status, r.stderr[:200])))
        return {"transitions": n, "outcome": hash((r.status, len(good), len(badset))), "nontrivial": True, "violations": viol}
    if space == "c07" and "shape" in case:
        # members whose bytes end in long runs of zeros (a writer that seeks over zeros instead of writing them leaves the file
        # short), and a member whose parent directory cannot be made (a dangling link sits at its name)
        if case["shape"] == "zeros":
            plain = bytes((i * 7 + 1) & 0xFF for i in range(case["head"])) + bytes(case["zeros"])
            arc = entry("f", b"", b"padded.bin", plain, level=2) + entry("f", b"", b"small.txt", b"small member\n", level=1)
            want = {b"padded.bin": plain, b"small.txt": b"small member\n"}
            expect_fail = False
        else:
            arc = entry("l", b"", b"data", target=b"nowhere", level=2) + entry("f", b"data/", b"inner", b"inner bytes", level=2) + entry("f", b"", b"ok.txt", b"fine", level=2)
            want = {b"data/inner": b"inner bytes", b"ok.txt": b"fine"}
            expect_fail = True
        r = runner.run(arc, [case["cmd"], "../archive.lzh"], stdin=b"", want_trees=True)
        good, badset = parse_names(r.stdout, None, None)
        for nm, plain in want.items():
            node = r.tree.get(nm)
            intact = node is not None and node[0] == "f" and node[3] == plain
            if nm in good and not intact:
                viol.append(("c07-cli-melted-without-file", "%s: %r is reported Melted but the file holds %s of %d bytes" % (case["cmd"], nm, "nothing" if node is None or node[3] is None else len(node[3]), len(plain))))
            if not intact and r.status == "exit:0":
                viol.append(("c07-cli-exit-status", "%s: %r was not produced (%s of %d bytes on disk), exit status 0" % (case["cmd"], nm, "nothing" if node is None or node[3] is None else len(node[3]), len(plain))))
        if expect_fail and r.status == "exit:0":
            viol.append(("c07-cli-exit-status", "%s: a member whose parent directory cannot be created, exit status 0" % case["cmd"]))
        if not r.status.startswith("exit:") or r.status in ("exit:86", "exit:87"):
            viol.append(("c07-cli-abnormal", "%s %r" % (r.status, r.stderr[:200])))
        return {"transitions": 1, "outcome": hash((r.status, tuple(sorted(good)))), "nontrivial": True, "violations": viol}
    if space == "c07" and "fsize" in case:
        # writes to the output file start failing after 'fsize' bytes (file size limit of the process): a member that does not fit
        # must not be reported as extracted, and the exit status must say so
        big = bytes((i * 7 + (i >> 8) * 13) & 0xFF for i in range(case["size"]))
        small = b"small member\n"
        arc = entry("f", b"", b"big.bin", big, level=2) + entry("f", b"", b"small.txt", small, level=1)
        r = runner.run(arc, [case["cmd"], "../archive.lzh"], stdin=b"", fsize=case["fsize"], want_trees=True)
        good, badset = parse_names(r.stdout, None, None)
        fits = case["size"] <= case["fsize"]
        for nm, plain in ((b"big.bin", big), (b"small.txt", small)):
            node = r.tree.get(nm)
            intact = node is not None and node[0] == "f" and node[3] == plain
            if nm in good and not intact:
                viol.append(("c07-cli-melted-without-file", "%s with a file size limit of %d: %r is reported Melted but the file holds %s of %d bytes" % (case["cmd"], case["fsize"], nm, "nothing" if node is None or node[3] is None else len(node[3]), len(plain))))
        if not fits and r.status == "exit:0":
            viol.append(("c07-cli-exit-status", "%s with a file size limit of %d on a member of %d bytes: exit status 0" % (case["cmd"], case["fsize"], case["size"])))
        if fits and (r.status != "exit:0" or b"big.bin" not in good and "q2" not in case["cmd"]):
            viol.append(("c07-cli-good-not-reported", "%s: member of %d bytes under a limit of %d: %s, stdout %r" % (case["cmd"], case["size"], case["fsize"], r.status, r.stdout[-120:])))
        if not r.status.startswith("exit:") or r.status in ("exit:86", "exit:87"):
            viol.append(("c07-cli-abnormal", "%s %r" % (r.status, r.stderr[:200])))
        return {"transitions": 1, "outcome": hash((r.status, tuple(sorted(good)))), "nontrivial": True, "violations": viol}
    if space == "c07":
        mem = three_members()
        names = [b"alpha.txt", b"dir/beta.bin", b"gamma"]
        arc = b"".join(corrupt(m, case["how"]) if case["mask"] & (1 << i) else m for i, m in enumerate(mem))
        filters = [f.encode() for f in case.get("filters", [])]
        from vlib import listrender
        selected = [i for i in range(3) if not filters or any(listrender.glob_match(f, names[i]) for f in filters)]
        extracting = case["cmd"][0] in "xe"
        blocked = case.get("blocked", 0)
        # 'blocked': a directory already sits where the member's file is to be created
        pre = [[names[i].decode(), "d", b"", 0o755, 900000000] for i in range(3) if blocked & (1 << i)]
        r = runner.run(arc, [case["cmd"], "../archive.lzh"] + filters, stdin=b"", pre=pre, want_trees=extracting)
        good, bad = parse_names(r.stdout, None, None)
        if extracting:
            # whatever is reported as extracted must be on disk with exactly the member's bytes
            for i in selected:
                if names[i] in good:
                    node = r.tree.get(names[i])
                    if node is None or node[0] != "f" or node[3] != PLAIN3[i]:
                        viol.append(("c07-cli-melted-without-file", "%s: %r is reported Melted but the file %s" % (case["cmd"], names[i], "is missing or not a file" if node is None or node[0] != "f" else "holds other bytes (%d instead of %d)" % (len(node[3] or b""), len(PLAIN3[i])))))
        exp_bad = [i for i in selected if (case["mask"] | blocked) & (1 << i)]
        exp_good = [i for i in selected if not (case["mask"] | blocked) & (1 << i)]
        quiet2 = "q2" in case["cmd"] or case["cmd"].endswith("q")
        if not quiet2:
            for i in exp_good:
                if names[i] not in good:
                    viol.append(("c07-cli-good-not-reported", "%s: intact member %r has no Tested/Melted line; stdout %r" % (case["cmd"], names[i], r.stdout[-200:])))
            for i in exp_bad:
                if names[i] in good:
                    viol.append(("c07-cli-bad-reported-good", "%s: damaged member %r is reported %s" % (case["cmd"], names[i], "Tested/Melted")))
        want_fail = bool(exp_bad)
        failed = r.status != "exit:0"
        if want_fail != failed:
            viol.append(("c07-cli-exit-status", "%s with damaged members %s selected %s: %s" % (case["cmd"], exp_bad, selected, r.status)))
        if not r.status.startswith("exit:") or r.status in ("exit:86", "exit:87"):
            viol.append(("c07-cli-abnormal", "%s %r" % (r.status, r.stderr[:200])))
        return {"transitions": 1, "outcome": hash((r.stdout, r.status)), "nontrivial": bool(selected), "violations": viol}
    if space == "c08":
        seed = seeds_c08()[case["seed"]]
        arc = bytearray(seed)
        if case["op"] == "sub":
            arc[case["pos"]] = case["val"]
        elif case["op"] == "del":
            del arc[case["pos"]]
        elif case["op"] == "dup":
            arc.insert(case["pos"], arc[case["pos"]])
        else:
            arc = arc[:case["pos"]]
        n = 0
        out = 0
        for mode in ("l", "v", "t", "pq", "xf", "xn"):
            r = runner.run(bytes(arc), [mode, "../archive.lzh"], stdin=b"", want_trees=False, timeout=30)
            n += 1
            out = hash((out, r.status))
            if not r.status.startswith("exit:") or r.status in ("exit:86", "exit:87"):
                viol.append(("c08-cli-abnormal-%s" % mode[0], "mode %s: %s stderr %r" % (mode, r.status, r.stderr[:400])))
        return {"transitions": n, "outcome": out, "nontrivial": True, "violations": viol}
    if space == "c13" and "env" in case:
        # every command returns whatever its environment answers: standard input exhausted at an overwrite prompt, a directory
        # sitting where a file is to be created
        arc = b"".join(three_members())
        if case["env"] == "prompt":
            pre = [["alpha.txt", "f", b"old", 0o644, 900000000], ["gamma", "f", b"old", 0o644, 900000000]]
            r = runner.run(arc, [case["cmd"], "../archive.lzh"], stdin=case["stdin"].encode(), pre=pre, want_trees=False, timeout=20, stdin_pipe=case.get("pipe", False))
        else:
            pre = [[n, "d", b"", 0o755, 900000000] for i, n in enumerate(("alpha.txt", "dir/beta.bin", "gamma")) if case["mask"] & (1 << i)]
            if case.get("nonempty"):
                pre += [[p[0] + "/inside", "f", b"x", 0o644, 900000000] for p in list(pre)]
            r = runner.run(arc, [case["cmd"], "../archive.lzh"], stdin=b"y\ny\ny\n", pre=pre, want_trees=False, timeout=20)
        if r.status == "timeout":
            viol.append(("c13-cli-does-not-return", "lha %s did not return (%s)" % (case["cmd"], {k: v for k, v in case.items() if k != "cmd"})))
        elif not r.status.startswith("exit:") or r.status in ("exit:86", "exit:87"):
            viol.append(("c08-cli-abnormal", "%s: %s %r" % (case["cmd"], r.status, r.stderr[:300])))
        return {"transitions": 1, "outcome": hash((r.status, r.stdout[-80:])), "nontrivial": True, "violations": viol}
    if space in ("c13", "c16"):
        seed = seeds_c08()[case["seed"]]
        arc = seed[:case["cut"]]
        outs = {}
        for how in ("file", "stdin-file", "stdin-pipe"):
            for mode in ("t", "lq2", "vvq2"):
                if how == "file":
                    r = runner.run(arc, [mode, "../archive.lzh"], want_trees=False, timeout=30)
                else:
                    r = runner.run(arc, [mode, "-"], stdin=arc, want_trees=False, timeout=30, stdin_pipe=(how == "stdin-pipe"))
                outs[(how, mode)] = (r.stdout, r.status)
                if r.status == "timeout":
                    viol.append(("c13-cli-does-not-return", "lha %s on an archive cut at %d via %s did not return" % (mode, case["cut"], how)))
                elif not r.status.startswith("exit:") or r.status in ("exit:86", "exit:87"):
                    viol.append(("c08-cli-abnormal", "%s %s: %s %r" % (mode, how, r.status, r.stderr[:300])))
        if space == "c13" and (case["cut"] % 5 == 0 or case["cut"] == len(seed)):
            # standard output that cannot be written to (full device) or is closed: every command still returns, without a signal
            for kind in ("full", "closed"):
                for mode in ("l", "vv", "t", "p", "xf", "xq2"):
                    r = runner.run(arc, [mode, "../archive.lzh"], want_trees=False, timeout=30, stdout_kind=kind)
                    if r.status == "timeout":
                        viol.append(("c13-cli-does-not-return", "lha %s with standard output %s did not return (archive cut at %d)" % (mode, kind, case["cut"])))
                    elif not r.status.startswith("exit:") or r.status in ("exit:86", "exit:87"):
                        viol.append(("c08-cli-abnormal", "%s with standard output %s: %s %r" % (mode, kind, r.status, r.stderr[:300])))
        for mode in ("t", "lq2", "vvq2"):
            for how in ("stdin-file", "stdin-pipe"):
                if outs[(how, mode)] != outs[("file", mode)]:
                    viol.append(("c16-cli-stdin-differs", "lha %s: output/status from %s differs from the regular file (cut %d): %r vs %r" % (mode, how, case["cut"], outs[(how, mode)][0][-120:], outs[("file", mode)][0][-120:])))
        return {"transitions": 9, "outcome": hash(tuple(sorted(outs.items()))), "nontrivial": True, "violations": viol}
    raise ValueError(space)


def cases_c07(thorough):
    for mask in range(8):
        for how in ("crc", "middle"):
            for cmd in ("t", "tq1", "xf", "xq1", "tq2", "e"):
                yield {"mask": mask, "how": how, "cmd": cmd}
            for filters in (["alpha*"], ["*beta*", "gamma"], ["nomatch"], ["*a*"]):
                for cmd in ("t", "xf"):
                    yield {"mask": mask, "how": how, "cmd": cmd, "filters": filters}


    for size, limits in ((200000, (4096, 32768, 100000, 199999, 200000, 262144)), (60000, (16384, 59999)), (9000, (4096, 8192)), (300000, (262144, 262145, 299999))):
        for lim in limits:
            for cmd in ("xf", "xq1", "ef"):
                yield {"size": size, "fsize": lim, "cmd": cmd}
    for head, zeros in ((256, 768), (0, 64), (0, 4096), (100, 28), (64, 64), (1, 63), (1000, 8192 - 1000), (0, 65536)):
        for cmd in ("xf", "xq1", "ef"):
            yield {"shape": "zeros", "head": head, "zeros": zeros, "cmd": cmd}
    for cmd in ("xf", "xq", "ef", "xq1"):
        yield {"shape": "noparent", "cmd": cmd}
    for blocked in range(1, 8):
        for cmd in ("xf", "xq1", "ef", "xfq0"):       # forms that do not prompt about the existing path
            yield {"mask": 0, "how": "crc", "cmd": cmd, "blocked": blocked}
        yield {"mask": blocked ^ 7, "how": "crc", "cmd": "xf", "blocked": blocked}
    for n, bads in ((300, (0, 1, 2, 127, 128, 129, 255, 256, 257, 300)), (512, (256, 511, 512)), (1024 if thorough else 0, (512, 768, 1024))):
        for bad in bads:
            for cmd in ("t", "tq2", "xf", "xfq1") if n else ():
                yield {"many": n, "bad": bad, "cmd": cmd}


def cases_c08(thorough):
    for si, seed in enumerate(seeds_c08()):
        members = lzhfmt.members(seed)
        hdr_pos = []
        for h in members:
            hdr_pos += list(range(h.data_off - h.header_len, h.data_off))
        for pos in hdr_pos:
            for val in (range(256) if thorough else QUICKVALS):
                if val != seed[pos]:
                    yield {"seed": si, "op": "sub", "pos": pos, "val": val}
            yield {"seed": si, "op": "del", "pos": pos}
            yield {"seed": si, "op": "dup", "pos": pos}
        for pos in range(0, len(seed), 1 if thorough else 3):
            yield {"seed": si, "op": "cut", "pos": pos}


def cases_c13_env(thorough):
    for cmd in ("x", "e", "-x", "xv", "xw=OUT"):
        for stdin in ("", "q\n", "junk", "\n", "y", "n\n", "yes\nno", "a", "s", "\0\n", "y\n" * 3, "zzzzzzzzzzzzzzzzzzzzzzzzzzzzzzzzzzzzzzzzzzzz"):
            for pipe in (False, True):
                yield {"env": "prompt", "cmd": cmd, "stdin": stdin, "pipe": pipe}
    for mask in range(1, 8):
        for cmd in ("xf", "xq", "ef", "x", "xfi", "xfw=OUT"):
            for nonempty in (False, True):
                yield {"env": "blocked", "cmd": cmd, "mask": mask, "nonempty": nonempty}


def cases_io(thorough):
    for si, seed in enumerate(seeds_c08()):
        for cut in range(0, len(seed) + 1, 1 if thorough else 7):
            yield {"seed": si, "cut": cut}
        yield {"seed": si, "cut": len(seed)}
