"""C02 - -lh1- in lock-step with LZHUF (E1)."""
from vlib import runner
import build


def run(ctx):
    b = build.ensure_explorer("dec_lh1", "asan")
    ctx.run_space(b, "seq", ["depth=%d" % (4 if ctx.thorough else 3)], cpu_limit=60)
    ctx.run_space(b, "full", ["depth=%d" % (2 if ctx.thorough else 1)], cpu_limit=60)
    ctx.run_space(b, "cover", cpu_limit=60)
    ctx.run_space(b, "pos", cpu_limit=60)
    ctx.run_space(b, "deep", cpu_limit=300, shards=8)
    ctx.run_space(b, "stairs", cpu_limit=300, shards=16)
    ctx.run_space(b, "rebuild", ["nth=1", "suffix=%d" % (2 if ctx.thorough else 1)], cpu_limit=300)
    if ctx.thorough:
        ctx.run_space(b, "rebuild", ["nth=2", "suffix=1"], cpu_limit=600)
        ctx.run_space(b, "rebuild", ["nth=3", "suffix=0"], cpu_limit=900)
    ctx.assumptions += ["ref/ref_lh1.c: LZHUF.C's StartHuff/update/reconst and position code, bound to the 21 corpus -lh1- members (incl. 1 MiB and 2 MiB members with repeated rebuilds) by ./check selftest"]
    return ctx.finish(
        rule="an explored state is a symbol history (all sequences to the depth over a 10-symbol alphabet; depth 1/2 over all 314 symbols; permutation prefixes covering the alphabet; 8 deterministic prefixes stopping -2..+1 symbols around the n-th rebuild x all suffixes); "
             "in EVERY state each of the 314 symbols is encoded with the reference code of that state and must decode correctly (transitions = decodes). 'deep' = Fibonacci-shaped histories that push code words beyond 16 bits (longest code reported in the evidence notes), probed with all 314 symbols; every 8th decode is repeated with the input delivered in pieces of 1-3 bytes; 'stairs' = staircase histories (K symbols with K different counts, three orders, K up to the whole alphabet) that put several hundred distinct frequencies into the tree at once (number reported in the notes), probed with all 314 symbols; 'pos' = every upper distance code x low bits x lengths after 10 prefix lengths incl. the ring seam. "
             "non-trivial/distinct = distinct complete code assignments (hash of all 314 code words)",
        replay_fn=lambda rep: runner.replay_explorer(rep, quiet=True))
