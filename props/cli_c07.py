from vlib import cliprop
from props import cli_misc


def run(ctx):
    cliprop.run_space(ctx, "props.cli_misc", "c07", cli_misc.cases_c07(ctx.thorough), chunk=16)
