"""C16 - same members from file, pipe or callbacks, and after any self-extractor prefix (E2)."""
from vlib import runner
import build

WRAP = "-Wl,--wrap=malloc -Wl,--wrap=calloc -Wl,--wrap=realloc -Wl,--wrap=free -Wl,--wrap=strdup -Wl,--wrap=fread -Wl,--wrap=fseek"
runner.EXPLORER_KW['arc_walk'] = {'extra_ld': WRAP}


def run(ctx):
    b = build.ensure_explorer("arc_walk", "asan", extra_ld=WRAP)
    ctx.run_space(b, "kinds", ["prop=16", "stride=1"], cpu_limit=120)
    ctx.run_space(b, "sfx", cpu_limit=120)
    ctx.run_space(b, "l1skip", cpu_limit=60)
    # gigabytes of member data in front of further members: a virtual stream served by callbacks (optimised build: 2^31 bytes go
    # through 32-byte reads when there is no skip function)
    pl = build.ensure_explorer("arc_walk", "plain", extra_ld=WRAP)
    ctx.run_space(pl, "huge", cpu_limit=300, shards=12)
    from vlib import cliprop
    from props import cli_misc
    cliprop.run_space(ctx, "props.cli_misc", "c16", cli_misc.cases_io(ctx.thorough), chunk=16)
    ctx.assumptions += ["member tables come from the archive builder (reference header encoder + reference stream serialisers); for a member whose data is cut only equality across stream kinds is required"]
    return ctx.finish(
        rule="'kinds': 7 generated archives (levels 0-3, all 14 methods, directories/links, SFX stub, empty/unknown-method members, members crossing the read blocks) cut at every offset (quick: every offset near headers/member ends and a stride elsewhere) x walks {list, read, check} x 5 stream kinds "
             "{seekable FILE, pipe FILE, callbacks without skip, callbacks whose skip fails past the end, seek-like skip}: observations (headers, bytes, verdicts) equal across kinds and equal to the member table for complete members; "
             "'l1skip': level-1 headers with 1..5 extended headers, the skip-size field set to every value from 0 to 12 past the true one, each read through all 5 stream kinds; 'huge': a first member with 2^31-16, 2^31-1, 2^31, 2^31+5 and 2^32-1 bytes of data served by callbacks with and without a skip function (2^32-1 without skip: thorough), two members behind it; 'sfx': clean prefixes of every length 0..64, around k*24, 1000..1050, 255KiB-40..255KiB x 3 filler families x {pipe, callbacks}; near-miss fragments at every offset of prefixes up to 40 bytes; marker + one decoy header at 48 offsets x gaps. non-trivial = distinct (archive, cut, walk) / prefix shapes",
        replay_fn=lambda rep: (cliprop.replay_case(rep) if rep.get('kind') == 'cli' else runner.replay_explorer(rep, quiet=True)))


def replay(rep):
    from vlib import cliprop
    return cliprop.replay_case(rep) if rep.get('kind') == 'cli' else runner.replay_explorer(rep)
