"""C09 - no compressed data makes a decoder touch invalid memory (E1 under ASan/UBSan)."""
import os, subprocess
from vlib import runner
import build

WRAP = "-Wl,--wrap=calloc -Wl,--wrap=free"
LH = ["-lh4-", "-lh5-", "-lh6-", "-lh7-", "-lhx-", "-lk7-"]


def run(ctx):
    asan = build.ensure_explorer("dec_fuzz", "asan", extra_ld=WRAP)
    plain = build.ensure_explorer("dec_fuzz", "plain", extra_ld=WRAP)
    T = ctx.thorough
    ctx.run_space(asan, "short", ["maxlen=2"], cpu_limit=60)
    ctx.run_space(asan, "pm2grammar", ["maxbits=%d" % (8 if T else 5)], cpu_limit=60)
    ctx.run_space(asan, "pm1grammar", ["maxbits=%d" % (12 if T else 9)], cpu_limit=60)
    ctx.run_space(asan, "lh1bits", ["maxbits=%d" % (16 if T else 12)], cpu_limit=60)
    ctx.run_space(asan, "lh1long", cpu_limit=60)
    for m in LH:
        if not T and m in ("-lh4-", "-lh7-"):
            continue     # same code as -lh5- / -lh6- with another ring size; thorough runs them all
        ctx.run_space(asan, "lhgrammar", ["method=" + m, "maxbits=%d" % (8 if T else 4)], cpu_limit=60)
        ctx.run_space(asan, "lhgrammar2", ["method=" + m, "maxbits=%d" % (8 if T else 4)], cpu_limit=60)
    # (c) every single-byte substitution and truncation of valid streams taken from the C01/C03/C04 spaces
    dump = os.path.join(ctx.scratch, "valid-streams.txt")
    env = dict(os.environ, VF_DUMP=dump)
    sources = [("dec_larc", "lz5-seq", [], 40), ("dec_larc", "lzs-seq", [], 40), ("dec_larc", "lz5-flags", [], 4),
               ("dec_lh", "tables", ["method=-lh5-"], 300), ("dec_lh", "tables", ["method=-lk7-"], 300), ("dec_lh", "seq", ["method=-lh6-", "depth=2"], 4),
               ("dec_lh", "blocks", ["method=-lh7-", "maxn=4"], 10), ("dec_pm", "pm2-tables", [], 30), ("dec_pm", "pm2-seq", ["depth=2"], 2),
               ("dec_pm", "pm2-bytes", [], 30), ("dec_pm", "pm1-headers", [], 12), ("dec_pm", "pm1-seq", ["depth=2"], 3)]
    for ex, space, args, stride in sources:
        b = build.ensure_explorer(ex, "plain")
        env["VF_DUMP_STRIDE"] = str(stride * 8 if not T else max(1, stride // 2))
        subprocess.run([b, "--space", space, "--shard", "0/1"] + args, env=env, stdout=subprocess.DEVNULL, stderr=subprocess.DEVNULL, cwd=ctx.scratch)
    lines = sorted(set(open(dump).read().split("\n"))) if os.path.exists(dump) else []
    lines = [l for l in lines if l.strip()]
    with open(dump, "w") as f:
        f.write("\n".join(lines) + "\n")
    ctx.notes["subst"] = {"valid_streams": len(lines)}
    ctx.run_space(asan, "subst", ["streams=" + dump], cpu_limit=120)
    if T:
        # all 3-byte strings: plain build for volume (bounds violations are caught at the smaller asan bound above)
        ctx.run_space(plain, "short", ["maxlen=3", "light=1"], cpu_limit=120)
    return ctx.finish(
        rule="'short': every byte string up to the length (thorough: also every 3-byte string for the seven small-state decoders, plain build, two schedules) as the whole compressed input of each of the 14 method names x declared lengths {0,1,65536,2^32-1} x read schedules {1.., 3.., 4096.., 1 then 4096} (+ one byte per input callback for bit-reader decoders); "
             "'lhgrammar'/'lhgrammar2': block count x temp-table size x all-equal temp lengths (0..19, unary extension) x skip x code-table size / out-of-range single symbols x offset-table size beyond the maximum, each followed by every bit string up to maxbits with all-0 and all-1 tails; "
             "'subst': every byte position of several hundred (thorough: thousands of) valid streams dumped from the C01/C03/C04 spaces x all 255 substitutions, truncation, 0x00/0xFF tails; 'pm2grammar': num_codes x min_len x length_bits over their full 5+3+3-bit ranges x field values, then bit strings; 'pm1grammar': 32 headers x every command prefix; 'lh1bits'; 'lh1long': valid -lh1- prefixes that have used 312..314 different codes (three orders, one and two rounds) or a staircase of counts, followed by every byte x 4 second bytes. Oracle: no sanitizer report/signal, read(k) returns <= k, total <= declared, the call returns (CPU watchdog). "
             "non-trivial = distinct input byte strings",
        replay_fn=lambda rep: runner.replay_explorer(rep, quiet=True))


runner.EXPLORER_KW['dec_fuzz'] = {'extra_ld': WRAP}


def replay(rep):
    return runner.replay_explorer(rep)
