"""C12 - headers failing their own integrity rules are never returned (E2)."""
from vlib import runner
import build


def run(ctx):
    b = build.ensure_explorer("arc_explore", "asan")
    ctx.run_space(b, "integrity", ["seeds=%d" % (1000 if ctx.thorough else 40)], cpu_limit=60)
    ctx.run_space(b, "integrity", ["seeds=%d" % (1000 if ctx.thorough else 12), "pairs=1"], cpu_limit=300)
    ctx.assumptions += ["ref/ref_header.c: three-valued integrity predicate (checksum over the declared range, common CRC with the field zeroed when exactly one is present, every length field inside the header/above the level minimum/covered by input, level <= 3), bound to the corpus dumps by ./check selftest",
                        "two common-CRC headers: abstain; a first header whose method signature is damaged is lead-in for the SFX scanner, not a header: abstain"]
    return ctx.finish(
        rule="generated well-formed headers (levels 0-3 x file/dir/link x variants with/without common CRC, extended chains, Unix area) x ALL 255 substitutions at every header byte, every truncation, every length field (total, name, compressed, level byte, each extended size) set to 16 boundary values with the checksum kept consistent; "
             "second pass (pairs=1): every PAIR of header positions x 15 x 15 replacement values on 12 (thorough: all) seeds; as first and as second member; followed by nothing / a valid member / garbage.  Oracle: predicate FAIL => no header returned and NULL forever; entries without the required name/path are not returned.  non-trivial = distinct (seed, position/field, context)",
        replay_fn=lambda rep: runner.replay_explorer(rep, quiet=True))
