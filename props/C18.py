"""C18 - archive-derived text printed by the tool is printable ASCII only (E4)."""
from vlib import runner, cliprop
import build

QUICK_BYTES = list(range(1, 0x20)) + [0x7F, 0x80, 0x9B, 0xA0, 0xFF, 0x5C, 0x2F, 0x7E, 0x20]


def cases(thorough):
    bytes_ = list(range(1, 256)) if thorough else QUICK_BYTES
    for field in ("inname", "name01", "path02", "target", "user", "group", "user+group"):
        for b in bytes_:
            for pos in (0, 1, 2):
                for kind in ("file", "dir", "link"):
                    if field in ("user", "group", "user+group") and kind != "file":
                        continue
                    if field == "target" and kind != "link":
                        continue
                    levels = (0, 1) if field == "inname" else (2, 3) if thorough else (2,)
                    for level in levels:
                        for member in ((0, 1) if thorough or pos == 1 else (1,)):
                            c = {"field": field, "byte": b, "pos": pos, "kind": kind, "level": level, "member": member}
                            if field == "target":
                                for via in (0, 1):
                                    d = dict(c); d["viapath"] = via
                                    yield d
                            else:
                                yield c
    for b in bytes_:
        for level in (0, 1):
            yield {"field": "method1", "byte": b, "pos": 3, "kind": "file", "level": level}
        for pos5 in range(5):
            yield {"field": "methodN", "byte": b, "pos5": pos5, "kind": "file", "level": 2, "member": 1}


def long_cases(thorough):
    lens = (200, 254, 255, 256, 257, 258, 300, 511, 512, 513, 1000, 1023, 1024, 1025, 4000) + ((8191, 8192, 8193, 30000) if thorough else ())
    for which in ("name", "path", "pathparts", "target", "user", "group"):
        for L in lens:
            for at in sorted(set([0, 100, 254, 255, 256, 257, -2, -1])):
                if at >= L:
                    continue
                for b in ((0x1B, 0x07, 0x7F, 0x80, 0xFF) if thorough else (0x1B, 0x9B)):
                    for member in (0, 1):
                        yield {"field": "long", "which": which, "len": L, "at": at, "byte": b, "kind": "link" if which == "target" else "file", "level": 2, "member": member}


def hdrbyte_cases(thorough):
    for level in (0, 1, 2, 3):
        for at in range(0, 60):
            for b in ((0x01, 0x07, 0x1B, 0x7F, 0x80, 0x9B, 0xFF) if thorough else (0x1B, 0x9B, 0x7F)):
                for member in (0, 1):
                    yield {"field": "hdrbyte", "level": level, "at": at, "byte": b, "kind": "file", "member": member,
                           "modes": ["l", "lv", "v", "vv", "t", "xq1", "xn"]}


def prompt_cases(thorough):
    """plain x / e over files that already exist: the prompt, and the lines that follow each answer, name the member"""
    for b in ((0x01, 0x07, 0x1B, 0x7F, 0x80, 0x9B, 0xFF) if thorough else (0x1B, 0x9B)):
        for pos in (0, 1, 2):
            for member in (0, 1):
                for answers in ("s\n", "n\nn\nn\nn\n", "y\ny\ny\ny\n", "a\n", "junk\ns\n", "\n\n\n\n", "", "n\ns\n", "y\ns\n"):
                    yield {"field": "name01", "byte": b, "pos": pos, "kind": "file", "level": 2, "member": member, "answers": answers, "modes": ["x", "e", "xv"]}


def percent_cases(thorough):
    for spec in ("%c%c%c%c", "%5c%c", "%x%x%x%x%x%x", "%d", "%%", "%s", "%08.3f%c", "%lu%c%c"):
        for which in ("name", "path", "target", "user", "inname"):
            for member in (0, 1):
                yield {"field": "percent", "spec": spec, "which": which, "byte": 0x25, "kind": "link" if which == "target" else "file", "level": 2, "member": member}


def run(ctx):
    cliprop.run_space(ctx, "props.cli_c18", "fields", cases(ctx.thorough), chunk=16)
    cliprop.run_space(ctx, "props.cli_c18", "long", long_cases(ctx.thorough), chunk=16)
    cliprop.run_space(ctx, "props.cli_c18", "percent", percent_cases(ctx.thorough), chunk=8)
    cliprop.run_space(ctx, "props.cli_c18", "prompt", prompt_cases(ctx.thorough), chunk=16)
    cliprop.run_space(ctx, "props.cli_c18", "hdrbyte", hdrbyte_cases(ctx.thorough), chunk=16)
    ctx.assumptions += ["member data is printable so that the whole of stdout and stderr can be judged; the tool is the real main() of src/ linked into the batch runner (ASan/UBSan build)"]
    return ctx.finish(
        rule="for each header field that can reach the terminal (level-0/1 in-header name, 0x01 name, 0x02 path components, link target in the name and through the path header, the free method byte of the first member, all five method bytes of a later member, user and group names): "
             "each byte value 0x01..0xFF (quick: all C0 controls, DEL, 0x80, 0x9B, 0xA0, 0xFF and separators) at first/middle/last position, as file, directory and link entry, as first and as last of three members; x 12 modes {l, lv, v, vv, t, x, xn, xq0, xq1, xq2, p, pq}. "
             "space 'percent': printf conversion specifications in names, paths, link targets, owner names (they must come out as they are, and nothing unprintable with them); space 'prompt': x, e, xv over members whose files already exist, with 9 answer scripts on standard input (skip, no, yes, all, junk, empty lines, end of input, mixed); space 'hdrbyte': every single byte of a plain member's header (levels 0-3, incl. the OS type, attribute, level and size bytes) replaced by ESC, CSI, DEL (thorough: 7 values), checksums re-made; space 'long': names, path components, link targets, user and group names of 200..4000 (thorough 30000) bytes, lengths around 255/256, 511/512, 1023/1024, with a hostile byte at offsets 0, 100, 254..257 and at the end. Oracle: every byte of stdout and stderr is in {0x20..0x7E, LF, CR, TAB}. states = distinct outputs. non-trivial = distinct cases",
        replay_fn=lambda rep: cliprop.replay_case(rep))


def replay(rep):
    return cliprop.replay_case(rep)
