"""C05 - every well-formed level 0-3 header is returned with exactly its encoded fields (E2)."""
from vlib import runner
import build


def run(ctx):
    b = build.ensure_explorer("arc_explore", "asan")
    ctx.run_space(b, "chains", ["maxlen=%d" % (5 if ctx.thorough else 4)], cpu_limit=60)
    ctx.run_space(b, "sweeps", cpu_limit=120)
    ctx.run_space(b, "perturbed-ok", ["seeds=%d" % (1000 if ctx.thorough else 40)], cpu_limit=60)
    ctx.assumptions += ["ref/ref_header.c encoder + normalise (DESIGN.md appendix B), parser/normalise bound to the 183 recorded header dumps by ./check selftest; every encoded record must parse back under the reference parser",
                        "checks run with TZ=UTC: MS-DOS stamps are converted with an independent civil-time routine; names containing NUL are outside 'well-formed' here"]
    return ctx.finish(
        rule="'chains': all ordered selections with repetition of up to 4 (thorough 5) extended headers from 12 types (00 01 02 41 50 51 52 53 54 CC, unknown 3F/77; second occurrences use different, partly undersized payloads) for levels 1-3 x file/dir/link x OS U/M/K; "
             "'sweeps': all 256 OS types x 8 name-case classes x levels, size/time boundary pairs incl. DOS dates to 2105, every in-header name length, level 2/3 name/path lengths to the 64 KiB / 1 MiB limits, permission words, uid/gid, level-0 Unix/OS-9/OS-9-68k areas of every length, -pm?- comment areas, LHARK and Amiga rewrites; "
             "'perturbed-ok': every single-byte substitution / length perturbation of the seeds that the reference still accepts must be returned with the reference's fields.  Oracle: all header fields == normalise(record), member data found directly after the header.  non-trivial = distinct records",
        replay_fn=lambda rep: runner.replay_explorer(rep, quiet=True))
