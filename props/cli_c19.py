"""C19 judge: list output equals the reference rendering byte for byte."""
import os, subprocess, struct, time
from vlib import lzhfmt, cli, listrender
import build

ENV = {"members-london": {"TZ": "Europe/London"}}
_exe = None


def exe():
    global _exe
    if _exe is None:
        _exe = build.ensure_explorer("ref_hdrjson", "plain", lib=False)
    return _exe


def member_bytes(m):
    exts = [(t, bytes.fromhex(d)) for t, d in m.get("exts", [])]
    data = bytes.fromhex(m["data"]) if "data" in m else None
    hdr = lzhfmt.build_header(m["level"], bytes.fromhex(m.get("method", "2d6c68302d")), packed=len(data) if data is not None else 0, size=m.get("size", 0), time=m.get("time", 0),
                              crc=m.get("crc", 0), os=m.get("os", ord("U")), name=bytes.fromhex(m.get("name", "")), area=bytes.fromhex(m.get("area", "")),
                              exts=exts, fake_packed=None if data is not None else m.get("packed", 0))
    return hdr + (data or b"")


def describe(space, case):
    ms = case["members"]
    return "C19 %s mode=%s%s spelling=%d filters=%s members=%d first=%s" % (space, case["mode"], case.get("q", ""), case.get("spell", 0), case.get("filters", []), len(ms), {k: v for k, v in (ms[0] if ms else {}).items()})


def run_case(runner, space, case):
    arc = b"".join(member_bytes(m) for m in case["members"])
    tmp = os.path.join(runner.base, "c19.%d.lzh" % os.getpid())
    with open(tmp, "wb") as f:
        f.write(arc)
    london = os.environ.get("TZ") == "Europe/London"
    js = subprocess.run([exe(), tmp, "0"] + (["london"] if london else []), stdout=subprocess.PIPE).stdout.decode()
    os.unlink(tmp)
    members = listrender.parse_members(js)
    filters = [bytes.fromhex(f) for f in case.get("filters", [])]
    if filters:
        sel = [h for h in members if any(listrender.glob_match(p, (h["path"] or b"").split(b"\0")[0] + (h["filename"] or b"").split(b"\0")[0]) for p in filters)]
    else:
        sel = members
    mtime = cli.NOW - 1000
    mode = case["mode"]
    q = case.get("q", "")
    quiet = 0 if q == "" else (2 if q == "q" else int(q[1]))
    r = listrender.Renderer(cli.NOW, localtime=time.localtime if london else time.gmtime)
    want = r.render(mode, sel, mtime, quiet)
    # spellings of the same command: quiet before or after the verbose modifier, with and without the leading '-'
    spell = case.get("spell", 0)
    v = "v" if len(mode) > 1 else ""
    argmode = ("-" if spell & 2 else "") + mode[0] + (v + q if spell & 1 else q + v)
    res = runner.run(arc, [argmode, "../archive.lzh"] + filters, archive_mtime=mtime, want_trees=False)
    viol = []
    if res.stdout != want:
        # first differing line
        a, b = res.stdout.split(b"\n"), want.split(b"\n")
        k = next((i for i in range(min(len(a), len(b))) if a[i] != b[i]), min(len(a), len(b)))
        viol.append(("c19-%s" % ("row" if 2 <= k < 2 + len(sel) * (2 if mode in ("lv", "vv") else 1) or quiet >= 2 else "frame"),
                     "line %d differs: tool %r, reference %r (members parsed by the reference: %d, selected %d)" % (k, a[k] if k < len(a) else None, b[k] if k < len(b) else None, len(members), len(sel))))
    if res.status != "exit:0":
        viol.append(("c19-exit", "status %s stderr %r" % (res.status, res.stderr[:200])))
    return {"transitions": 1, "outcome": hash(res.stdout), "nontrivial": len(sel) > 0, "violations": viol}
