"""C03 - LArc -lzs-/-lz5- and the stored methods (E1)."""
from vlib import runner
import build


def run(ctx):
    b = build.ensure_explorer("dec_larc", "asan")
    ctx.run_space(b, "stored", ["maxn=%d" % (2100 if ctx.thorough else 2100)])
    for s in ("lz5-single", "lzs-single", "lz5-flags", "lz5-seq", "lzs-seq", "lz5-wrap", "lzs-wrap", "lz5-runs"):
        ctx.run_space(b, s)
    ctx.assumptions += ["ref/ref_lz.c: absolute-position LZ77 over the documented LArc initial ring contents (formula), bound to the corpus -lz5-/-lzs- members by ./check selftest"]
    return ctx.finish(
        rule="streams are produced by the reference serialiser from command lists: stored (every length 0..2100 x 5 declared lengths x 3 names); "
             "every single copy (all ring positions x all 16 lengths) from the initial state, for -lzs- after 0..7 literals (all bit alignments); "
             "all 256 flag bytes; all command sequences to depth 4 (thorough 5) over a 14-letter alphabet with positions relative to the write position; "
             "seam/wrap prefixes x boundary copies; 'lz5-runs': runs of eight commands (6 flag patterns) starting at every write position from 8 before to 23 after the end of the ring, followed by copies from ring positions 0, 1, 7, 4089, 4094, 4095.   non-trivial = distinct stream containing at least one copy (stored: non-empty output); "
             "states = distinct hashes of the decoder's private state area + wrapper fields + output after each read",
        replay_fn=lambda rep: runner.replay_explorer(rep, quiet=True))
