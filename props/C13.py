"""C13 - every call returns; work and heap bounded by bytes present and declared size (E2)."""
from vlib import runner
import build
from props.C16 import WRAP


def run(ctx):
    b = build.ensure_explorer("arc_walk", "asan", extra_ld=WRAP)
    ctx.run_space(b, "kinds", ["prop=13", "stride=1"], cpu_limit=60)
    ctx.run_space(b, "extreme", cpu_limit=120)
    ctx.run_space(b, "work", cpu_limit=120)
    from vlib import cliprop
    from props import cli_misc
    cliprop.run_space(ctx, "props.cli_misc", "c13", cli_misc.cases_io(ctx.thorough), chunk=16)
    cliprop.run_space(ctx, "props.cli_misc", "c13", cli_misc.cases_c13_env(ctx.thorough), chunk=4)
    ctx.assumptions += ["step budget per API call: zero-progress source calls (source answered 0 / -1) <= 8 + bytes of output the call may still deliver; progress calls are bounded by the bytes present by construction; heap: allocator hooks (--wrap) track live bytes",
                        "a per-case CPU watchdog is the backstop behind the deterministic counters; FILE kinds count fread/fseek through --wrap"]
    return ctx.finish(
        rule="'kinds': the 7 generated archives cut at every offset x walks {list, read all, check all} x 5 stream kinds, with per-call zero-progress counters and live-heap tracking; "
             "'extreme': level-3 header length at every power of two +-1 up to 2^32-1 with and without bytes present, 4 GiB member sizes with 10 bytes of data, level-1 chains of maximal extended headers, 256 KiB +- 30 of header-less lead-in, "
             "'work': headers as large as the format allows (1 MiB level 3, 64 KiB level 1/2) with every byte present, 11 families of name/path content (all upper case, separators only, '../' repeated, one-letter components, ...) x 5 OS types x {name header, path header, both} x 3 stream kinds: CPU time of listing <= 1.5 s + 1 us per byte present (measured worst case in the notes); "
             "every method with 0/2 bytes of input and declared lengths up to 4 MiB. CLI: every cut of three archives through file/stdin-file/stdin-pipe, standard output full or closed, 12 standard-input contents (incl. empty and junk) at an overwrite prompt x 5 command words x file/pipe, directories (empty and not) at 1..3 output paths x 6 command words: every command returns. Oracle: every call returns within the budget, output <= declared, peak live heap <= 8 MiB + 2*len(input). non-trivial = distinct (archive, cut, walk) / extreme shapes",
        replay_fn=lambda rep: (cliprop.replay_case(rep) if rep.get('kind') == 'cli' else runner.replay_explorer(rep, quiet=True)))


def replay(rep):
    from vlib import cliprop
    return cliprop.replay_case(rep) if rep.get('kind') == 'cli' else runner.replay_explorer(rep)
