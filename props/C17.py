"""C17 - the checksum routine is CRC-16/ARC (E5)."""
import sys
from vlib import runner
import build


def run(ctx):
    asan = build.ensure_explorer("crc_explore", "asan")
    plain = build.ensure_explorer("crc_explore", "plain")
    ctx.run_space(asan, "step")
    ctx.run_space(asan, "split", ["maxlen=%d" % (300 if ctx.thorough else 128)])
    ctx.run_space(asan, "long", cpu_limit=120)
    ctx.run_space(asan, "lengths", ["maxlen=%d" % (70000 if ctx.thorough else 9000)], cpu_limit=120)
    ctx.run_space(asan, "selfimage", cpu_limit=120)
    ctx.run_space(asan, "alias", cpu_limit=60)
    ctx.run_space(plain, "giant", cpu_limit=300, shards=4)
    tsan = build.ensure_explorer("crc_explore", "tsan")
    ctx.run_space(tsan, "threads", ["rounds=3000"], cpu_limit=120, shards=1, env={"TSAN_OPTIONS": "exitcode=88:halt_on_error=1"})
    o0 = build.ensure_explorer("crc_explore", "o0")
    # unoptimised build: every access the source makes to a variable is a real memory access (an optimiser keeps a needlessly
    # static working variable in a register, where neither the race nor ThreadSanitizer can see it)
    ctx.run_space(o0, "threads", ["rounds=200000"], cpu_limit=120, shards=1)
    ctx.run_space(o0, "guard", ["maxlen=%d" % (5000 if ctx.thorough else 600)], cpu_limit=60)
    if ctx.thorough:
        ctx.run_space(plain, "pair", cpu_limit=120)
    ctx.assumptions += ["ref/ref_crc16.c is the bit-at-a-time definition of CRC-16/ARC (reflected 0xA001, init 0, no final xor)"]
    return ctx.finish(
        rule="space 'step': one case per 16-bit state covering all 256 next bytes and the empty buffer (all 2^24 pairs); "
             "space 'split': content family x every length x every alignment 0..15, each with every 2-way split "
             "(and every 3-way split up to length 48); space 'long': lengths around 2^16, 2^17, 2^20 (thorough 2^24) whole and at 8 split points; space 'lengths': EVERY length 0..9000 (thorough 70000) in one call at every alignment 0..7; space 'guard' (unoptimised build): every length 0..600 (5000) with the data ending at the last readable byte before an inaccessible page, whole and in two pieces; space 'giant': one call with 2^31-1, 2^31, 2^31+5, 2^32 (thorough also 2^32-1, 2^32+5) bytes against 1 MiB pieces; space 'threads': two threads summing at the same time, free-running, in the unoptimised and the ThreadSanitizer build; space 'alias': the state word placed at every even offset inside summed buffers of 2..40 bytes; space 'selfimage': for all 2^16 states, 8 buffer patterns built from the state's own bytes/complements/zeros x lengths 3..9, whole and split; space 'pair' (thorough): every (state, 2-byte buffer) in one call (2^32). "
             "non-trivial = distinct (state) resp. (family,length,alignment) with length>0; states = distinct (input,result) triples hashed",
        replay_fn=lambda rep: runner.replay_explorer(rep, quiet=True))


def replay(rep):
    return runner.replay_explorer(rep)
