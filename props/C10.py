"""C10 - extraction never touches anything outside the extraction directory (E4)."""
import itertools
from vlib import runner, cliprop


def seqs(n, maxlen, minlen=1):
    for L in range(minlen, maxlen + 1):
        for s in itertools.product(range(n), repeat=L):
            yield list(s)


def cases_a1(thorough):
    for s in seqs(31, 4 if thorough else 3):
        yield {"alpha": "A1", "seq": s, "cmd": "x"}
    for s in seqs(31, 3 if thorough else 2):
        for cmd in ("xf", "xq", "xfi", "xfw=D", "xfiw=D", "eq1"):
            yield {"alpha": "A1", "seq": s, "cmd": cmd}


def cases_a2(thorough):
    for s in seqs(10, 5):
        yield {"alpha": "A2", "seq": s, "cmd": "xf"}


def cases_b(thorough):
    for alpha, n in (("A1", 31), ("A2", 10)):
        for s in seqs(n, 3 if thorough else 2):
            for cmd in ("l", "v", "t", "p", "xn", "en", "xfn", "pq"):
                yield {"alpha": alpha, "seq": s, "cmd": cmd}


    # every order of the dry-run letter among up to two (thorough: three) other option tokens, with and without a target directory:
    # the dry run is a property of the option SET, not of where 'n' stands
    import itertools
    toks = ("f", "i", "q", "q0", "q1", "q2", "v")
    for letter in ("x", "e", "-x"):
        for k in range(0, 4 if thorough else 3):
            for sub in itertools.combinations(toks, k):
                for perm in itertools.permutations(sub + ("n",)):
                    for w in ("", "w=D", "wD"):
                        cmd = letter + "".join(perm) + w
                        for s in seqs(31, 1):
                            yield {"alpha": "A1", "seq": s, "cmd": cmd}


def cases_c(thorough):
    for pre in ("inside", "outside", "dangling"):
        for s in seqs(31, 2):
            if set(s) & {0, 1, 9, 10, 11, 22, 23}:
                for cmd in ("xf", "xq", "x"):
                    yield {"alpha": "A1", "seq": s, "cmd": cmd, "pre": pre}


    for s in seqs(31, 2):
        if set(s) & {0, 1, 22, 23}:
            for cmd in ("xf", "xq", "ef"):
                yield {"alpha": "A1", "seq": s, "cmd": cmd, "pre": "readonly-dir"}


def cases_d(thorough):
    for alpha, n in (("A1", 31), ("A2", 10)):
        for s in seqs(n, 2):
            for cmd in ("xfw=D", "xqw=D"):
                yield {"alpha": alpha, "seq": s, "cmd": cmd, "pre": "dirs"}


def run(ctx):
    cliprop.run_space(ctx, "props.cli_c10", "A2-link-interplay", cases_a2(ctx.thorough), chunk=128)
    cliprop.run_space(ctx, "props.cli_c10", "A1-hostile-names", cases_a1(ctx.thorough), chunk=128)
    cliprop.run_space(ctx, "props.cli_c10", "B-readonly-commands", cases_b(ctx.thorough), chunk=128)
    cliprop.run_space(ctx, "props.cli_c10", "C-preexisting-links", cases_c(ctx.thorough), chunk=64)
    cliprop.run_space(ctx, "props.cli_c10", "D-relocation", cases_d(ctx.thorough), chunk=64)
    ctx.assumptions += ["every path-taking libc call of the tool and library is wrapped at link time, logged, and resolved at call time (parent by realpath, final component followed or not according to the call's semantics); failed attempts are not violations",
                        "the run is made as root so that nothing is protected by permissions; the canary tree next to the extraction root and the listing of their common parent are compared before and after"]
    return ctx.finish(
        rule="'A1': all sequences up to length 3 (thorough 4) over 31 archive entries with hostile names (.., absolute, backslash and 0xFF separated, NUL-containing, through link names; read-only directory; safe and two dangerous links) under x, and up to length 2 (3) under xf, xq, xfi, xfw=D, xfiw=D, eq1; "
             "'A2': ALL sequences up to length 5 over 10 link-interplay entries (three same-named safe links, dangerous links of path length 1/3/4, files through link names); 'C' also with the pre-existing link inside a directory the unprivileged tool cannot modify (the link cannot be removed; its target outside is world-writable); 'B': every archive up to length 2 (3) under l, v, t, p, xn, en, xfn, pq, and every one-entry archive under every ordering of 'n' among up to 2 (3) of the option tokens f,i,q,q0,q1,q2,v with and without w=D: no successful mutating call; "
             "'D': w=D with same-named directories already in the working directory (the region is then root/D); 'C': pre-existing link (to a file inside, outside, dangling) at the final component of output files. Oracle at every prefix of the operation log: every successful mutating call resolves inside the root; once a dangerous link exists only unlink/symlink follow; canary tree and parent listing unchanged. non-trivial = runs with at least one successful mutating call (read-only commands: all)",
        replay_fn=lambda rep: cliprop.replay_case(rep))


def replay(rep):
    return cliprop.replay_case(rep)
