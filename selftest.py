"""./check selftest: binds the reference models to ground truth (recorded corpus), see DESIGN.md 2.4.
A failure here is 'harness broken' (exit 2), never a VIOLATION."""
import os, sys, subprocess, glob
import build
from vlib import lzhfmt

REPO = build.REPO
CORPUS = os.path.join(REPO, "test", "archives")


def corpus_files():
    out = []
    for root, _, files in os.walk(CORPUS):
        for f in sorted(files):
            if f == "README":
                continue
            out.append(os.path.join(root, f))
    return sorted(out)


def find_first_header(buf):
    """offset of the first header (corpus SFX files carry stubs; after an SFX marker one decoy signature is skipped)"""
    skip = 0
    for i in range(0, min(len(buf), 1 << 18)):
        if buf[i + 2:i + 3] == b"-" and buf[i + 6:i + 7] == b"-" and buf[i + 3:i + 5] in (b"lh", b"lz", b"pm"):
            if skip:
                skip -= 1
            else:
                h = lzhfmt.parse_header(buf, i)
                if h is not None:
                    return i
        if buf[i:i + 7] == b"LHA-SFX" or buf[i:i + 12] == b"LhASFX V1.2,":
            skip = 1
    return None


def corpus_members():
    for path in corpus_files():
        buf = open(path, "rb").read()
        off = find_first_header(buf)
        if off is None:
            continue
        while off < len(buf):
            h = lzhfmt.parse_header(buf, off)
            if h is None:
                break
            yield path, h
            off = h.data_off + h.data_len


def t_ref_decoders():
    exe = build.ensure_explorer("ref_selftest", "plain", lib=False)
    lines = []
    methods = {}
    for path, h in corpus_members():
        m = h.method.decode("latin1")
        if m == "-lhd-" or h.data_off + h.data_len > os.path.getsize(path):
            continue
        if m == "-lh7-" and h.level == 1 and h.os == 0x20:
            m = "-lk7-"
        if "truncated" in path or "badterm" in path:
            continue
        lines.append("%s %d %x %s %d %d" % (m, h.size, h.crc, path, h.data_off, h.data_len))
        methods[m] = methods.get(m, 0) + 1
    r = subprocess.run([exe], input="\n".join(lines).encode(), stdout=subprocess.PIPE)
    out = r.stdout.decode()
    bad = [l for l in out.splitlines() if l.startswith("FAIL")]
    skipped = sorted(set(l.split()[1] for l in out.splitlines() if l.startswith("SKIP")))
    res = [l for l in out.splitlines() if l.startswith("RESULT")]
    return (not bad and bool(res)), "%s methods=%s no-ref-decoder=%s %s" % (res[0] if res else "?", methods, skipped, bad[:3])


def t_ref_headers():
    """reference parser + normaliser reproduce every recorded header dump (test/output/**-hdr.txt)"""
    exe = build.ensure_explorer("ref_hdrdump", "plain", lib=False)
    out_root = os.path.join(REPO, "test", "output")
    n = bad = 0
    first_bad = []
    for path in corpus_files():
        rel = os.path.relpath(path, CORPUS)
        dump = os.path.join(out_root, rel + "-hdr.txt")
        if not os.path.exists(dump):
            continue
        buf = open(path, "rb").read()
        off = find_first_header(buf)
        if off is None:
            off = 0
        r = subprocess.run([exe, path, str(off), "london"], stdout=subprocess.PIPE)
        want = open(dump, "rb").read()
        n += 1
        if r.stdout != want:
            bad += 1
            if len(first_bad) < 4:
                first_bad.append(rel)
    return bad == 0 and n > 100, "dumps=%d mismatching=%d %s" % (n, bad, first_bad)


def t_list_renderer():
    """the Python list renderer reproduces every listing recorded from the original Unix LHA tool"""
    import time
    from vlib import listrender
    exe = build.ensure_explorer("ref_hdrjson", "plain", lib=False)
    out_root = os.path.join(REPO, "test", "output")
    old_tz = os.environ.get("TZ")
    os.environ["TZ"] = "Europe/London"
    time.tzset()
    n = bad = 0
    first_bad = []
    try:
        r = listrender.Renderer(1335830400, localtime=time.localtime)
        mtime = int(time.mktime((2000, 1, 1, 0, 0, 0, 0, 0, -1)))
        for path in corpus_files():
            rel = os.path.relpath(path, CORPUS)
            if not os.path.exists(os.path.join(out_root, rel + "-l.txt")) or not os.path.exists(os.path.join(out_root, rel + "-hdr.txt")):
                continue      # (one recorded listing, lha_unix114i/h0_subdir, is of an archive whose level-0 directory entries carry no path at all)
            buf = open(path, "rb").read()
            off = find_first_header(buf) or 0
            js = subprocess.run([exe, path, str(off), "london"], stdout=subprocess.PIPE).stdout.decode()
            members = listrender.parse_members(js)
            for mode in ("l", "lv", "v", "vv"):
                want = open(os.path.join(out_root, rel + "-%s.txt" % mode), "rb").read()
                got = r.render(mode, members, mtime)
                n += 1
                if got != want:
                    bad += 1
                    if len(first_bad) < 4:
                        first_bad.append(rel + "-" + mode)
    finally:
        if old_tz is None:
            os.environ.pop("TZ", None)
        else:
            os.environ["TZ"] = old_tz
        time.tzset()
    return bad == 0 and n > 400, "listings=%d mismatching=%d %s" % (n, bad, first_bad)


def main():
    rc = 0
    for name, fn in TESTS:
        try:
            ok, msg = fn()
        except Exception as e:  # noqa
            import traceback
            traceback.print_exc()
            ok, msg = False, repr(e)
        print("selftest %-22s %s %s" % (name, "ok" if ok else "FAILED", msg))
        if not ok:
            rc = 2
    return rc


TESTS = [("ref-decoders-vs-corpus", t_ref_decoders), ("ref-headers-vs-dumps", t_ref_headers), ("list-renderer-vs-unix-lha", t_list_renderer)]
