"""./check selftest: binds the reference models to ground truth (recorded corpus), see DESIGN.md 2.4.
A failure here is 'harness broken' (exit 2), never a VIOLATION."""
import os, sys, subprocess
import build


def main():
    rc = 0
    for name, fn in TESTS:
        try:
            ok, msg = fn()
        except Exception as e:  # noqa
            ok, msg = False, repr(e)
        print("selftest %-28s %s %s" % (name, "ok" if ok else "FAILED", msg))
        if not ok:
            rc = 2
    return rc


TESTS = []
