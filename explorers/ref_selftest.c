/* binds the reference decoders to the recorded corpus: stdin lines "method declared crc path offset packed" */
#include <stdio.h>
#include <stdlib.h>
#include <string.h>
#include "ref_all.h"

int main(void)
{
	char method[16], path[2048];
	unsigned long declared, crc, off, packed;
	int bad = 0, n = 0, skipped = 0;
	while (scanf("%15s %lu %lx %2047s %lu %lu", method, &declared, &crc, path, &off, &packed) == 6) {
		FILE *f = fopen(path, "rb");
		uint8_t *in = malloc(packed + 1), *out = malloc(declared + 1);
		long got;
		int err;
		if (!f) { printf("FAIL open %s\n", path); ++bad; continue; }
		fseek(f, (long) off, SEEK_SET);
		if (fread(in, 1, packed, f) != packed) { printf("FAIL short %s\n", path); ++bad; fclose(f); continue; }
		fclose(f);
		got = ref_decode(method, in, packed, declared, out, &err);
		if (got < 0) { ++skipped; printf("SKIP %s %s\n", method, path); }
		else if ((unsigned long) got != declared || ref_crc16(0, out, declared) != crc) {
			printf("FAIL %s %s@%lu got=%ld want=%lu crc=%04x want=%04lx err=%d\n", method, path, off, got, declared, ref_crc16(0, out, got), crc, err);
			++bad;
		} else ++n;
		free(in); free(out);
	}
	printf("RESULT ok=%d bad=%d skipped=%d\n", n, bad, skipped);
	return bad ? 1 : 0;
}
