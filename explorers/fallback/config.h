/* fallback used only when /repo/config.h has not been generated */
#define PACKAGE_NAME "Lhasa"
#define PACKAGE_STRING "Lhasa 0.4.0"
#define PACKAGE_VERSION "0.4.0"
#define PACKAGE_BUGREPORT "fraggle@gmail.com"
