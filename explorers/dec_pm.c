/* E1 / C04: PMarc -pm2- and -pm1- against MTF + LZ77 expansion */
#include "dec_common.h"
#include "ref_pm.h"
#include "ref_all.h"

#define CAP (1u << 18)
static uint8_t SBUF[CAP], EBUF[CAP], EBUF2[CAP], ZBUF[CAP + 4096];

/* ====================================================================== pm2 */

static ref_pm2_ctable UNI_A, UNI_B;
static ref_pm2_otable UNI_O[4];   /* 5,6,7,8 entries */

static void make_universal(void)
{
	uint8_t len[32], bl[32];
	int i;
	ref_balanced_lengths(29, bl);
	for (i = 0; i < 29; ++i) len[i] = bl[i];
	ref_pm2_ctable_from_lengths(&UNI_A, len, 29);
	for (i = 0; i < 29; ++i) len[i] = bl[28 - i];
	ref_pm2_ctable_from_lengths(&UNI_B, len, 29);
	for (i = 0; i < 4; ++i) ref_balanced_lengths(5 + i, UNI_O[i].len);
}

static ref_cmd lit(unsigned b) { ref_cmd c; memset(&c, 0, sizeof c); c.value = b; c.len = 1; return c; }
static ref_cmd cpy(unsigned off, unsigned len) { ref_cmd c; memset(&c, 0, sizeof c); c.copy = 1; c.value = off; c.len = len; return c; }

typedef struct {
	ref_bw w;
	ref_pm2_enc e;
} pm2_stream;
static pm2_stream PS;

static void pm2_begin(const ref_pm2_ctable *ct, const ref_pm2_otable *ot, const int *reread, int nplan)
{
	ref_bw_init(&PS.w, SBUF, CAP);
	ref_pm2_enc_init(&PS.e, &PS.w, ct, ot, reread, nplan, EBUF, CAP);
}

static int pm2_finish(int nontrivial)
{
	size_t sl = ref_bw_bytes(&PS.w), el = PS.e.out, rl;
	int err;
	if (PS.e.error || PS.w.overflow) {
		printf("HARNESS pm2 serialiser error for %s\n", VF.desc);
		return 0;
	}
	rl = ref_pm2_decode(SBUF, sl, el, EBUF2, &err);
	if (err || rl != el || memcmp(EBUF, EBUF2, el)) {
		printf("HARNESS pm2 reference round trip failed (err=%d %zu/%zu) for %s\n", err, rl, el, VF.desc);
		return 0;
	}
	dec_expect("pm2-output", "-pm2-", SBUF, sl, EBUF, el, 0);
	if (nontrivial) vf_nontrivial(vf_hash(SBUF, sl, 2));
	return 1;
}

/* byte whose MTF position is 'pos' in the current encoder state */
static ref_cmd pm2_byte_at(int pos) { return lit(ref_mtf_at(&PS.e.mtf, pos)); }

static const int PM2_BYTE_CLS[8][2] = { { 0, 3 }, { 8, 3 }, { 16, 4 }, { 32, 5 }, { 64, 5 }, { 96, 5 }, { 128, 6 }, { 192, 6 } };

/* a command that uses code symbol s (both = 0: low end of its class, 1: high end) */
static ref_cmd pm2_cmd_for_symbol(int s, int high, unsigned off)
{
	if (s < 8) return pm2_byte_at(PM2_BYTE_CLS[s][0] + (high ? (1 << PM2_BYTE_CLS[s][1]) - 1 : 0));
	{
		static const int lo[6] = { 17, 25, 33, 65, 129, 256 }, hi[6] = { 24, 32, 64, 128, 256, 256 };
		int c = s - 8;
		ref_cmd r;
		if (c < 15) r = cpy(off, (unsigned) c + 2);
		else r = cpy(off, (unsigned) (high ? hi[c - 15] : lo[c - 15]));
		if (c == 20) { r.variant = 1; r.value = 0; }
		if (c == 0 && r.value > 63) r.value = 63;
		return r;
	}
}

typedef struct { const int *syms; int k; } pm2_set;

static void pm2_ctable_cb(const uint8_t *len, int k, void *u)
{
	pm2_set *S = (pm2_set *) u;
	uint8_t full[32];
	ref_pm2_ctable t0, t;
	ref_pm2_otable ot;
	int i, m, w, lmin = 99, lmax = 0, hi;
	memset(full, 0, sizeof full);
	for (i = 0; i < k; ++i) { full[S->syms[i]] = len[i]; if (len[i] < lmin) lmin = len[i]; if (len[i] > lmax) lmax = len[i]; }
	if (!ref_pm2_ctable_from_lengths(&t0, full, 29)) return;
	memset(&ot, 0, sizeof ot);
	ot.len[0] = 1; ot.len[1] = 1;     /* offset symbols 0 and 1 */
	/* every (min_len, length_bits) pair that can express the vector */
	for (m = 1; m <= 7 && m <= lmin; ++m)
	for (w = 1; w <= 7; ++w) {
		if ((1 << w) - 1 < lmax - m + 1) continue;
		for (hi = 0; hi < 2; ++hi) {
			if (!vf_case("pm2 ctable syms=%d.. lens=[%s] min_len=%d length_bits=%d %s", S->syms[0], vf_hex(len, k), m, w, hi ? "high" : "low")) continue;
			t = t0; t.min_len = m; t.length_bits = w;
			pm2_begin(&t, &ot, NULL, 1);
			for (i = 0; i < k; ++i) { ref_cmd c = pm2_cmd_for_symbol(S->syms[i], hi, hi ? 127 : 5); ref_pm2_put(&PS.e, &c); }
			for (i = k - 1; i >= 0; --i) { ref_cmd c = pm2_cmd_for_symbol(S->syms[i], !hi, 64); ref_pm2_put(&PS.e, &c); }
			pm2_finish(1);
		}
	}
}

static void pm2_otable_cb(const uint8_t *len, int k, void *u)
{
	pm2_set *S = (pm2_set *) u;
	ref_pm2_otable ot;
	int i, hi;
	memset(&ot, 0, sizeof ot);
	for (i = 0; i < k; ++i) ot.len[S->syms[i]] = len[i];
	for (hi = 0; hi < 2; ++hi) {
		if (!vf_case("pm2 otable syms=%d.. lens=[%s] %s", S->syms[0], vf_hex(len, k), hi ? "high" : "low")) continue;
		pm2_begin(&UNI_A, &ot, NULL, 1);
		{ ref_cmd c = lit(0x41); ref_pm2_put(&PS.e, &c); }
		for (i = 0; i < k; ++i) {
			int v = S->syms[i];
			unsigned off = v == 0 ? (hi ? 63 : 0) : (1u << (v + 5)) + (hi ? (1u << (v + 5)) - 1 : 0);
			ref_cmd c = cpy(off, hi ? 3 : 17);
			ref_pm2_put(&PS.e, &c);
			c = lit(0x42 + i); ref_pm2_put(&PS.e, &c);
		}
		pm2_finish(1);
	}
}

static void pm2_space_tables(void)
{
	static const int sets[][6] = {
		{ 2, 0, 1 }, { 2, 0, 8 }, { 2, 7, 28 }, { 2, 8, 9 }, { 2, 22, 23 }, { 2, 27, 28 },
		{ 3, 0, 7, 22 }, { 3, 0, 8, 9 }, { 3, 3, 23, 27 }, { 3, 0, 1, 2 },
		{ 4, 1, 8, 23, 27 }, { 4, 0, 2, 4, 6 }, { 4, 5, 9, 22, 28 },
		{ 5, 0, 3, 8, 22, 28 }, { 5, 1, 2, 7, 9, 27 },
	};
	static const int osets[][5] = { { 2, 0, 1 }, { 2, 0, 4 }, { 2, 3, 4 }, { 3, 1, 2, 4 }, { 3, 0, 1, 2 }, { 4, 0, 1, 2, 3 }, { 4, 0, 2, 3, 4 } };
	unsigned s;
	int sym, v, hi;
	pm2_set S;
	for (s = 0; s < sizeof sets / sizeof *sets; ++s) {
		S.k = sets[s][0]; S.syms = &sets[s][1];
		ref_kraft_enum(S.k, 12, pm2_ctable_cb, &S);
	}
	/* the universal tables themselves, all 29 symbols used */
	for (hi = 0; hi < 2; ++hi)
	for (v = 0; v < 2; ++v) {
		if (!vf_case("pm2 all 29 symbols, table %c, %s ends", v ? 'B' : 'A', hi ? "high" : "low")) continue;
		pm2_begin(v ? &UNI_B : &UNI_A, UNI_O, NULL, 1);
		for (sym = 0; sym < 29; ++sym) { ref_cmd c = pm2_cmd_for_symbol(sym, hi, (unsigned) (sym * 31) % 1024); ref_pm2_put(&PS.e, &c); }
		pm2_finish(1);
	}
	/* lopsided complete codes over K symbols: lengths 1, 2, ..., K-1, K-1 (code words of up to 28 bits), both directions */
	{
		int K, dir, i;
		for (K = 14; K <= 29; ++K)
		for (dir = 0; dir < 2; ++dir)
		for (hi = 0; hi < 2; ++hi) {
			uint8_t full[32];
			ref_pm2_ctable t;
			ref_pm2_otable ot;
			if (!vf_case("pm2 chain code over %d symbols (longest code %d bits), %s, %s ends", K, K - 1, dir ? "descending" : "ascending", hi ? "high" : "low")) continue;
			memset(full, 0, sizeof full);
			for (i = 0; i < K; ++i) {
				int pos = dir ? K - 1 - i : i;
				full[(i * 5) % 29 < 29 ? (i * 5) % 29 : i] = (uint8_t) (pos < K - 1 ? pos + 1 : K - 1);
			}
			if (!ref_pm2_ctable_from_lengths(&t, full, 29)) { printf("HARNESS chain table K=%d not accepted by the reference\n", K); continue; }
			t.min_len = 1; t.length_bits = 5;
			memset(&ot, 0, sizeof ot);
			ot.len[0] = 1; ot.len[1] = 1;
			pm2_begin(&t, &ot, NULL, 1);
			for (i = 0; i < K; ++i) { ref_cmd c = pm2_cmd_for_symbol((i * 5) % 29, hi, hi ? 127 : 5); ref_pm2_put(&PS.e, &c); }
			for (i = K - 1; i >= 0; --i) { ref_cmd c = pm2_cmd_for_symbol((i * 5) % 29, !hi, 64); ref_pm2_put(&PS.e, &c); }
			pm2_finish(1);
		}
	}
	/* single-code form for every symbol (incl. n=29, min_len=0: no offset table) */
	for (sym = 0; sym < 29; ++sym)
	for (v = 0; v < 5; ++v) {
		ref_pm2_ctable t;
		ref_pm2_otable ot;
		int i;
		if (sym < 9 && v > 0) break;          /* no offset table for n < 10 */
		if (sym == 28 && v > 0) break;
		if (!vf_case("pm2 single code symbol %d, single offset entry %d", sym, v)) continue;
		memset(&t, 0, sizeof t); t.n = sym + 1; t.min_len = 0;
		memset(&ot, 0, sizeof ot); ot.len[v] = 3;
		pm2_begin(&t, &ot, NULL, 1);
		for (i = 0; i < 3; ++i) {
			unsigned off = v == 0 ? (unsigned) (i * 31) : (1u << (v + 5)) + (unsigned) i * 7;
			ref_cmd c = pm2_cmd_for_symbol(sym, i & 1, off);
			ref_pm2_put(&PS.e, &c);
		}
		pm2_finish(1);
	}
	/* offset-table encodings at the start of the stream (5 entries) */
	for (s = 0; s < sizeof osets / sizeof *osets; ++s) {
		S.k = osets[s][0]; S.syms = &osets[s][1];
		ref_kraft_enum(S.k, 7, pm2_otable_cb, &S);
	}
}

static void pm2_space_bytes(void)
{
	/* byte commands at both ends of each class after every MTF history of depth <= 3 over 5 byte values */
	static const uint8_t hv[5] = { 0x20, 0x41, 0x00, 0x9F, 0xFF };
	int d, idx[3], i, cls, hi;
	for (d = 0; d <= 3; ++d) {
		memset(idx, 0, sizeof idx);
		for (;;) {
			for (cls = 0; cls < 8; ++cls)
			for (hi = 0; hi < 2; ++hi) {
				if (!vf_case("pm2 history [%d %d %d]/%d then byte class %d %s end", idx[0], idx[1], idx[2], d, cls, hi ? "high" : "low")) continue;
				pm2_begin(&UNI_A, UNI_O, NULL, 1);
				for (i = 0; i < d; ++i) { ref_cmd c = lit(hv[idx[i]]); ref_pm2_put(&PS.e, &c); }
				{ ref_cmd c = pm2_cmd_for_symbol(cls, hi, 0); ref_pm2_put(&PS.e, &c); }
				{ ref_cmd c = pm2_cmd_for_symbol(cls, !hi, 0); ref_pm2_put(&PS.e, &c); }
				{ ref_cmd c = cpy(0, 3); ref_pm2_put(&PS.e, &c); }
				{ ref_cmd c = pm2_byte_at(1); ref_pm2_put(&PS.e, &c); }
				pm2_finish(1);
			}
			for (i = d - 1; i >= 0; --i) { if (++idx[i] < 5) break; idx[i] = 0; }
			if (i < 0) break;
		}
	}
}

static void pm2_space_copies(void)
{
	static const unsigned lens[] = { 2, 3, 16, 17, 24, 25, 32, 33, 64, 65, 128, 129, 255, 256 };
	static const unsigned dists[] = { 0, 1, 2, 62, 63, 64, 127, 128, 255, 256, 511, 512, 1023 };
	static const int pres[] = { 0, 1, 5, 300 };
	unsigned li, di, pi, var;
	for (pi = 0; pi < 4; ++pi)
	for (li = 0; li < sizeof lens / sizeof *lens; ++li)
	for (di = 0; di < sizeof dists / sizeof *dists; ++di)
	for (var = 0; var < 2; ++var) {
		ref_cmd c = cpy(dists[di], lens[li]);
		int i;
		if (var && !(lens[li] == 256 && dists[di] == 0)) continue;
		if (lens[li] == 2 && dists[di] > 63) continue;
		c.variant = (int) var;
		if (!vf_case("pm2 %d bytes then copy(%u,%u)%s then byte, copy", pres[pi], dists[di], lens[li], var ? " via symbol 28" : "")) continue;
		pm2_begin(&UNI_B, UNI_O, NULL, 1);
		for (i = 0; i < pres[pi]; ++i) { ref_cmd b = lit((unsigned) (i * 13 + 7 + (i >> 8) * 29) & 0xFF); ref_pm2_put(&PS.e, &b); }
		ref_pm2_put(&PS.e, &c);
		{ ref_cmd b = pm2_byte_at(3); ref_pm2_put(&PS.e, &b); }
		{ ref_cmd b = cpy(dists[di] < 64 ? dists[di] : 5, 2); ref_pm2_put(&PS.e, &b); }
		pm2_finish(1);
	}
}

static void pm2_space_seq(int depth)
{
	/* all command sequences over a 12-letter alphabet */
	int d, idx[6], i;
	for (d = 1; d <= depth; ++d) {
		memset(idx, 0, sizeof idx);
		for (;;) {
			if (vf_case("pm2 seq %d.%d.%d.%d.%d/%d", idx[0], idx[1], idx[2], idx[3], idx[4], d)) {
				int hascopy = 0;
				pm2_begin(&UNI_A, UNI_O, NULL, 1);
				for (i = 0; i < d; ++i) {
					ref_cmd c;
					switch (idx[i]) {
					case 0: c = pm2_byte_at(0); break;
					case 1: c = pm2_byte_at(1); break;
					case 2: c = pm2_byte_at(8); break;
					case 3: c = pm2_byte_at(255); break;
					case 4: c = lit(0x00); break;
					case 5: c = cpy(0, 2); break;
					case 6: c = cpy(0, 17); break;
					case 7: c = cpy(1, 3); break;
					case 8: c = cpy((unsigned) PS.e.out, 4); break;           /* last pre-fill space */
					case 9: c = cpy(PS.e.out ? (unsigned) PS.e.out - 1 : 0, 256); break;
					case 10: c = cpy(64, 16); break;
					default: c = cpy(1023, 33); break;
					}
					if (c.copy && c.len == 2 && c.value > 63) c.value = 63;
					if (c.copy && c.value > 1023) c.value = 1023;
					hascopy |= c.copy;
					ref_pm2_put(&PS.e, &c);
				}
				pm2_finish(hascopy);
			}
			for (i = d - 1; i >= 0; --i) { if (++idx[i] < 12) break; idx[i] = 0; }
			if (i < 0) break;
		}
	}
}

static void pm2_space_schedule(void)
{
	/* prefixes that bring the output count to T+delta, a copy that crosses T in the middle, both values of the
	 * re-read bit, then commands that need the newly loaded tables */
	static const size_t Ts[] = { 1024, 2048, 4096, 8192, 12288, 16384 };
	static ref_pm2_ctable ct[8];
	static ref_pm2_otable ot[8];
	static int rr[8];
	unsigned ti, style, cross;
	int delta, rmask;
	for (ti = 0; ti < 6; ++ti)
	for (style = 0; style < 3; ++style)
	for (delta = -2; delta <= 1; ++delta)
	for (cross = 0; cross < 3; ++cross)
	for (rmask = 0; rmask < 4; ++rmask) {
		size_t T = Ts[ti], target = T + delta;
		int ev, k;
		if (ti < 2 && rmask > 0) continue;       /* no re-read bit before 4 KiB */
		if (ti == 2 && rmask > 1) continue;
		if (!vf_case("pm2 schedule T=%zu style=%u reach=%zu cross=%u reread=%d", T, style, target, cross, rmask)) continue;
		for (ev = 0; ev < 8; ++ev) {
			/* event ev tables: alternate A/B; offset tables of the right size */
			int flip = ev >= 3 ? ((rmask >> ((ev - 3) & 1)) & 1) : 0;
			rr[ev] = flip;
			ct[ev] = (ev & 1) ? UNI_B : UNI_A;
			ot[ev] = UNI_O[ev == 0 ? 0 : ev == 1 ? 1 : ev == 2 ? 2 : 3];
			if (ev & 1) { uint8_t t = ot[ev].len[0]; int n = ev == 1 ? 6 : 8, j; for (j = 0; j < n - 1; ++j) ot[ev].len[j] = ot[ev].len[j + 1]; ot[ev].len[n - 1] = t; }
		}
		pm2_begin(ct, ot, rr, 8);
		/* prefix */
		while (PS.e.out < target) {
			size_t left = target - PS.e.out;
			ref_cmd c;
			if (style == 0 || left < 2 || PS.e.out == 0) c = lit((unsigned) (PS.e.out * 7 + 3 + (PS.e.out >> 8) * 29) & 0xFF);
			else if (style == 1) { unsigned l = left > 256 ? 256 : (unsigned) left; c = cpy((unsigned) (PS.e.out > 600 ? 577 : 0), l); }
			else {
				unsigned l = 2 + (unsigned) (PS.e.out * 5) % 40;
				if (l > left) l = (unsigned) left;
				c = (PS.e.out & 3) ? cpy((unsigned) ((PS.e.out * 3) % (PS.e.out < 1024 ? PS.e.out : 1024)), l) : pm2_byte_at((int) (PS.e.out % 200));
				if (c.copy && c.len == 2 && c.value > 63) c.value &= 63;
			}
			ref_pm2_put(&PS.e, &c);
		}
		/* crossing copy (only when still below T) */
		if (PS.e.out < T) {
			unsigned l = cross == 0 ? 2 : cross == 1 ? 20 : 256;
			ref_cmd c = cpy(cross == 0 ? 1 : 70, l);
			ref_pm2_put(&PS.e, &c);
		}
		/* after the reload: a far copy that needs the newest offset entry, bytes, a short copy */
		{
			unsigned far = T >= 4096 ? 4096 + 17 : T >= 2048 ? 2048 + 5 : T >= 1024 ? 1024 + 9 : 600;
			ref_cmd c;
			if (far >= PS.e.out) far = (unsigned) PS.e.out - 1;
			c = cpy(far, 5); ref_pm2_put(&PS.e, &c);
			c = pm2_byte_at(9); ref_pm2_put(&PS.e, &c);
			c = cpy(3, 2); ref_pm2_put(&PS.e, &c);
			for (k = 0; k < 3; ++k) { c = pm2_byte_at(k * 50); ref_pm2_put(&PS.e, &c); }
			c = cpy(8191 < PS.e.out ? 8191 : (unsigned) PS.e.out - 1, 33); ref_pm2_put(&PS.e, &c);
		}
		pm2_finish(1);
	}
}

/* table kinds for the reload space: what the code table looks like decides whether an offset table follows */
enum { K_UNI, K_SMALL, K_ONE0, K_ONE8, K_ONE27, K_ONE28, K_KEEP, K_COUNT };

static void kind_table(int kind, ref_pm2_ctable *t)
{
	uint8_t len[32];
	memset(t, 0, sizeof *t);
	switch (kind) {
	case K_UNI: *t = UNI_B; break;
	case K_SMALL: memset(len, 0, sizeof len); ref_balanced_lengths(9, len); ref_pm2_ctable_from_lengths(t, len, 9); break;
	case K_ONE0: t->n = 1; break;
	case K_ONE8: t->n = 9; break;
	case K_ONE27: t->n = 28; break;
	case K_ONE28: t->n = 29; break;
	}
}

static void kind_emit(int kind)
{
	size_t o = PS.e.out;
	ref_cmd c;
	switch (kind) {
	case K_UNI:
		if ((o & 3) == 0) c = pm2_byte_at((int) (o % 256));
		else c = cpy((unsigned) ((o * 7) % (o < 500 ? (o ? o : 1) : 500)), 2 + (unsigned) (o * 3) % 100);
		if (c.copy && c.len == 2 && c.value > 63) c.value &= 63;
		break;
	case K_SMALL:
		c = (o % 3) ? pm2_byte_at((int) ((o * 5) % 256)) : cpy((unsigned) (o % 64), 2);
		break;
	case K_ONE0: c = pm2_byte_at((int) ((o * 3) % 8)); break;
	case K_ONE8: c = cpy((unsigned) ((o * 7) % 64), 2); break;
	case K_ONE27: c = cpy((unsigned) ((o * 11) % 500), 129 + (unsigned) (o * 13) % 128); break;
	default: c = cpy(0, 256); c.variant = 1; break;
	}
	ref_pm2_put(&PS.e, &c);
}

static void pm2_space_reload(void)
{
	static ref_pm2_ctable ct[8];
	static ref_pm2_otable ot[8];
	static int rr[8];
	int k1, k2, k3;
	for (k1 = 0; k1 < K_KEEP; ++k1)
	for (k2 = 0; k2 < K_COUNT; ++k2)
	for (k3 = 0; k3 < K_COUNT; ++k3) {
		int ev, cur = k1, guard = 0;
		if (!vf_case("pm2 reload: table kind %d from the start, %d at 4096, %d at 8192 (6 = keep)", k1, k2, k3)) continue;
		for (ev = 0; ev < 8; ++ev) {
			int k = ev < 3 ? k1 : ev == 3 ? k2 : k3;
			rr[ev] = k != K_KEEP;
			kind_table(k == K_KEEP ? k1 : k, &ct[ev]);
			memset(&ot[ev], 0, sizeof ot[ev]);
			ref_balanced_lengths(4, ot[ev].len);          /* offset symbols 0..3: distances < 512 */
			if (ev & 1) { ot[ev].len[0] = 1; ot[ev].len[1] = 2; ot[ev].len[2] = 3; ot[ev].len[3] = 3; }
		}
		pm2_begin(ct, ot, rr, 8);
		while (PS.e.out < 8192 + 700 && !PS.e.error && ++guard < 20000) {
			if (PS.e.event >= 5) cur = k3 != K_KEEP ? k3 : (k2 != K_KEEP ? k2 : k1);
			else if (PS.e.event >= 4) cur = k2 != K_KEEP ? k2 : k1;
			else cur = k1;
			kind_emit(cur);
		}
		pm2_finish(1);
	}
}

/* ====================================================================== pm1 */

#define MAXIT 4096
static ref_pm1_item IT[MAXIT];
static int NIT;
static uint8_t BYTES[1 << 18];
static size_t NBYTES;
static uint8_t XOUT[CAP];
static size_t XP;
static ref_mtf XM;
static int HEADER;

static void p1_begin(int header) { NIT = 0; NBYTES = 0; XP = 0; HEADER = header; ref_mtf_init(&XM); }

static void p1_block(const uint8_t *b, int n)
{
	int i;
	memcpy(BYTES + NBYTES, b, (size_t) n);
	IT[NIT].copy = 0; IT[NIT].bytes = BYTES + NBYTES; IT[NIT].nbytes = n; IT[NIT].range = -1;
	++NIT; NBYTES += (size_t) n;
	for (i = 0; i < n; ++i) { XOUT[XP++] = b[i]; ref_mtf_touch(&XM, b[i]); }
}

static void p1_copy(unsigned dist, unsigned len, int range)
{
	unsigned k;
	IT[NIT].copy = 1; IT[NIT].dist = dist; IT[NIT].len = len; IT[NIT].range = range; ++NIT;
	for (k = 0; k < len; ++k) { uint8_t b = XOUT[XP - dist - 1]; XOUT[XP++] = b; ref_mtf_touch(&XM, b); }
}

/* classes expressible with a header */
static int p1_class_ok(int header, int cls)
{
	const char *t = REF_PM1_TREES[header];
	if (t[0] != '(') return cls == 0;
	return strchr(t, 'a' + cls) != NULL;
}

static const int PM1_CLS[6][2] = { { 0, 4 }, { 16, 4 }, { 32, 5 }, { 64, 6 }, { 128, 6 }, { 192, 6 } };

/* n generated bytes whose classes are expressible with the header */
static void p1_gen_block(int n, unsigned seed)
{
	uint8_t tmp[216];
	ref_mtf m = XM;
	int i;
	for (i = 0; i < n; ++i) {
		int cls, tries = 0, pos;
		do { cls = (int) ((seed + (unsigned) i * 7 + (unsigned) tries) % 6); ++tries; } while (!p1_class_ok(HEADER, cls));
		pos = PM1_CLS[cls][0] + (int) ((seed * 5 + (unsigned) i * 11) % (1u << PM1_CLS[cls][1]));
		tmp[i] = ref_mtf_at(&m, pos);
		ref_mtf_touch(&m, tmp[i]);
	}
	p1_block(tmp, n);
}

/* bring the output position to exactly p (p >= 3) */
static void p1_reach(size_t p, unsigned seed)
{
	if (XP == 0 && p > 0 && ((p % 216) == 1 || (p % 216) == 2)) { p1_gen_block(100, seed); p1_copy(0, 2, -1); }
	while (XP < p) {
		size_t left = p - XP;
		if (left == 216 || left >= 219) p1_gen_block(216, seed + (unsigned) XP);
		else if (left >= 3) { p1_gen_block((int) left - 2, seed + (unsigned) XP); p1_copy(XP > 5 ? 3 : 0, 2, -1); }
		else { printf("HARNESS pm1 cannot reach %zu from %zu\n", p, XP); break; }
	}
}

static int p1_finish(int nontrivial, int zerofill)
{
	size_t el = 0, sl, rl;
	int err;
	sl = ref_pm1_serialise(HEADER, IT, NIT, SBUF, CAP, EBUF, CAP, &el);
	if (sl == 0 || el != XP || memcmp(EBUF, XOUT, el)) {
		printf("HARNESS pm1 serialiser rejected %s (sl=%zu el=%zu xp=%zu)\n", VF.desc, sl, el, XP);
		return 0;
	}
	rl = ref_pm1_decode(SBUF, sl, el, EBUF2, &err);
	if (err || rl != el || memcmp(EBUF, EBUF2, el)) {
		printf("HARNESS pm1 reference round trip failed (err=%d %zu/%zu) for %s\n", err, rl, el, VF.desc);
		return 0;
	}
	dec_expect("pm1-output", "-pm1-", SBUF, sl, EBUF, el, 0);
	if (nontrivial) vf_nontrivial(vf_hash(SBUF, sl, 1));
	if (zerofill) {
		/* zero-fill tail: the stream cut at every byte, declared length unchanged, must decode exactly like
		 * the cut stream followed by zero bytes (decided on the real decoder alone), and like the reference
		 * decoder on the zero-extended stream where that one sees a well-formed continuation */
		size_t cut;
		uint8_t *o1 = malloc(el + 2), *o2 = malloc(el + 2);
		for (cut = 0; cut < sl; ++cut) {
			dec_result r1, r2;
			size_t g1, g2, g3;
			memcpy(ZBUF, SBUF, cut);
			memset(ZBUF + cut, 0, el + 64);
			g1 = dec_run("-pm1-", SBUF, cut, el, o1, 0, 0, &r1);
			g2 = dec_run("-pm1-", ZBUF, cut + el + 64, el, o2, 0, 0, &r2);
			if (g1 != g2 || memcmp(o1, o2, g1))
				vf_viol("pm1-zero-tail", "cut at %zu of %zu: %zu bytes from the cut stream, %zu from the zero-extended one", cut, sl, g1, g2);
			g3 = ref_pm1_decode(ZBUF, cut + el + 64, el, EBUF2, &err);
			if (!err && (g3 != g1 || memcmp(EBUF2, o1, g1)))
				vf_viol("pm1-zero-tail-ref", "cut at %zu of %zu: decoder gives %zu bytes, reference on zero-extended stream %zu", cut, sl, g1, g3);
		}
		free(o1); free(o2);
	}
	return 1;
}

static void pm1_space_headers(void)
{
	int h, cls, hi, pre;
	for (h = 0; h < 32; ++h)
	for (cls = 0; cls < 6; ++cls)
	for (hi = 0; hi < 2; ++hi)
	for (pre = 0; pre < 3; ++pre) {
		uint8_t b[4];
		int n = 0, pos;
		if (!p1_class_ok(h, cls)) continue;
		if (!vf_case("pm1 header %d %s: %d filler then byte of class %c %s end", h, REF_PM1_TREES[h], pre, 'a' + cls, hi ? "high" : "low")) continue;
		p1_begin(h);
		if (pre) { p1_gen_block(pre, (unsigned) h); p1_copy(0, 2, -1); }
		pos = PM1_CLS[cls][0] + (hi ? (1 << PM1_CLS[cls][1]) - 1 : 0);
		b[n++] = ref_mtf_at(&XM, pos);
		p1_block(b, 1);
		p1_copy(0, 3, -1);
		p1_gen_block(2, 77);
		p1_copy(1, 2, -1);
		p1_finish(1, h % 4 == 0);
	}
}

static void pm1_space_lengths(void)
{
	static const int blens[] = { 1, 2, 3, 4, 10, 11, 24, 25, 88, 89, 215, 216 };
	static const unsigned clens[] = { 2, 3, 5, 6, 10, 11, 14, 15, 22, 23, 84, 85, 116, 117, 243, 244 };
	static const int hdrs[] = { 0, 9, 16, 26, 31 };
	unsigned bi, ci, hi;
	for (hi = 0; hi < 5; ++hi)
	for (bi = 0; bi < sizeof blens / sizeof *blens; ++bi)
	for (ci = 0; ci < sizeof clens / sizeof *clens; ++ci) {
		if (!vf_case("pm1 header %d block of %d bytes, copy of %u, block, copy", hdrs[hi], blens[bi], clens[ci])) continue;
		p1_begin(hdrs[hi]);
		p1_gen_block(blens[bi], ci * 3 + bi);
		if (blens[bi] != 216) p1_copy(0, clens[ci] == 2 ? 2 : 3, -1);
		/* a copy introduced by its own command bit */
		p1_copy(XP > 1 ? 1 : 0, clens[ci], -1);
		p1_gen_block(blens[(bi + 5) % 12], ci + 1);
		if (blens[(bi + 5) % 12] != 216) p1_copy(2 < XP ? 2 : 0, clens[(ci + 7) % 16], -1);
		p1_finish(1, bi < 4 && ci < 4);
	}
}

/* the largest amounts one decoding step can produce: a long byte block directly followed by a long copy */
static void pm1_space_maxout(void)
{
	static const int blens[] = { 1, 100, 195, 196, 197, 200, 214, 215 };
	static const unsigned clens[] = { 2, 100, 200, 224, 225, 226, 240, 243, 244 };
	static const int hdrs[] = { 0, 9, 31 };
	unsigned bi, ci, hi;
	for (hi = 0; hi < 3; ++hi)
	for (bi = 0; bi < sizeof blens / sizeof *blens; ++bi)
	for (ci = 0; ci < sizeof clens / sizeof *clens; ++ci) {
		if (!vf_case("pm1 header %d: 300 bytes, then a block of %d bytes directly followed by a copy of %u, twice", hdrs[hi], blens[bi], clens[ci])) continue;
		p1_begin(hdrs[hi]);
		p1_gen_block(150, 3); p1_copy(0, 3, -1); p1_gen_block(147, 5); p1_copy(1, 3, -1);
		p1_gen_block(blens[bi], ci * 3 + bi);
		p1_copy(7, clens[ci], -1);
		p1_gen_block(blens[bi], ci + 11);
		p1_copy(250, clens[ci], -1);
		p1_finish(1, 0);
	}
}

static void pm1_space_distances(void)
{
	static const size_t Ts[] = { 64, 320, 576, 832, 1088, 1600, 2624, 2880, 3136, 3648, 4672, 6720, 10816, 16384 };
	unsigned ti, range, dsel, lsel;
	int delta, style;
	for (ti = 0; ti < sizeof Ts / sizeof *Ts; ++ti)
	for (delta = -1; delta <= 1; ++delta)
	for (style = 0; style < 2; ++style)
	for (range = 0; range < 6; ++range)
	for (dsel = 0; dsel < 4; ++dsel)
	for (lsel = 0; lsel < 2; ++lsel) {
		size_t p = Ts[ti] + delta;
		unsigned base = 0, width = 0, dist, len;
		/* range availability and width at p, from the format description */
		switch (range) {
		case 0: case 2: base = 0; width = 6; break;
		case 1: if (p < 64) continue; base = 64; width = 8; break;
		case 3: if (p < 64) continue; base = 64; width = p < 320 ? 8 : 9; break;
		case 4: if (p < 576) continue; base = 576; width = p < 832 ? 8 : p < 1088 ? 9 : p < 1600 ? 10 : 11; break;
		default: if (p < 2624) continue; base = 2624; width = p < 2880 ? 8 : p < 3136 ? 9 : p < 3648 ? 10 : p < 4672 ? 11 : p < 6720 ? 12 : 13; break;
		}
		dist = dsel == 0 ? base : dsel == 1 ? base + (1u << width) - 1 : dsel == 2 ? base + (1u << width) / 2 : (unsigned) p - 1;
		if (dist >= p) { if (dsel == 3) continue; dist = (unsigned) p - 1; }
		if (dist < base || dist >= base + (1u << width)) continue;
		len = range < 2 ? 2 : lsel ? 244 : 3;
		if (range < 2 && lsel) continue;
		if (!vf_case("pm1 position %zu (threshold %zu) style %d range %u copy(%u,%u)", p, Ts[ti], style, range, dist, len)) continue;
		p1_begin(style ? 12 : 0);
		p1_reach(p, 5 + (unsigned) style * 9);
		if (XP != p) continue;
		p1_copy(dist, len, (int) range);
		p1_gen_block(3, 9);
		p1_copy(XP - 1 < 63 ? (unsigned) XP - 1 : 63, 2, 0);
		p1_finish(1, 0);
	}
}

static void pm1_space_seq(int depth)
{
	int d, idx[6], i, h;
	static const int hdrs[] = { 2, 17, 31 };
	for (h = 0; h < 3; ++h)
	for (d = 1; d <= depth; ++d) {
		memset(idx, 0, sizeof idx);
		for (;;) {
			if (vf_case("pm1 header %d seq %d.%d.%d.%d/%d", hdrs[h], idx[0], idx[1], idx[2], idx[3], d)) {
				p1_begin(hdrs[h]);
				/* every sequence starts with one byte so that copies have something to refer to */
				p1_gen_block(1, 3); p1_copy(0, 2, -1);
				for (i = 0; i < d; ++i) {
					switch (idx[i]) {
					case 0: p1_gen_block(1, (unsigned) i); p1_copy(0, 2, -1); break;
					case 1: p1_gen_block(3, (unsigned) i + 4); p1_copy(1, 3, -1); break;
					case 2: p1_gen_block(216, (unsigned) i + 8); break;
					case 3: p1_copy(0, 2, 0); break;
					case 4: p1_copy(0, 3, 2); break;
					case 5: p1_copy((unsigned) XP - 1, 5, -1); break;
					case 6: p1_copy(XP > 64 ? 64 : 0, XP > 64 ? 2 : 4, XP > 64 ? 1 : 2); break;
					default: p1_copy(XP > 2 ? 2 : 0, 244, 2); break;
					}
				}
				p1_finish(1, d <= 2);
			}
			for (i = d - 1; i >= 0; --i) { if (++idx[i] < 8) break; idx[i] = 0; }
			if (i < 0) break;
		}
	}
}

int main(int argc, char **argv)
{
	dec_no_aslr(argv);
	vf_init(argc, argv);
	make_universal();
	if (!strcmp(VF.space, "pm2-tables")) pm2_space_tables();
	else if (!strcmp(VF.space, "pm2-bytes")) pm2_space_bytes();
	else if (!strcmp(VF.space, "pm2-copies")) pm2_space_copies();
	else if (!strcmp(VF.space, "pm2-seq")) pm2_space_seq(atoi(vf_extra("depth", "3")));
	else if (!strcmp(VF.space, "pm2-schedule")) pm2_space_schedule();
	else if (!strcmp(VF.space, "pm2-reload")) pm2_space_reload();
	else if (!strcmp(VF.space, "pm1-headers")) pm1_space_headers();
	else if (!strcmp(VF.space, "pm1-lengths")) pm1_space_lengths();
	else if (!strcmp(VF.space, "pm1-maxout")) pm1_space_maxout();
	else if (!strcmp(VF.space, "pm1-distances")) pm1_space_distances();
	else if (!strcmp(VF.space, "pm1-seq")) pm1_space_seq(atoi(vf_extra("depth", "3")));
	else { fprintf(stderr, "unknown space %s\n", VF.space); return 2; }
	vf_done();
	return 0;
}
