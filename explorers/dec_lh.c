/* E1 / C01: LHA static-Huffman family against LZ77 expansion.  Spaces: tables, seq, blocks, wrap. */
#include "dec_common.h"
#include "ref_lh.h"
#include "ref_all.h"

#define SCAP (3u << 20)
static uint8_t *SBUF, *EBUF, *EBUF2;
static ref_cmd ALLC[(1 << 21) + 64];

static const ref_lh_params *M;

/* serialise blocks, cross-check the reference decoder, run the real decoder */
static int emit_and_check(ref_lh_block *blocks, int nb, int nontrivial)
{
	ref_bw w;
	int i, n = 0, err;
	size_t sl, el, rl;
	ref_bw_init(&w, SBUF, SCAP);
	for (i = 0; i < nb; ++i) {
		if (!ref_lh_write_block(M, &w, &blocks[i])) {
			printf("HARNESS serialiser rejected block %d of case %s\n", i, VF.desc);
			return 0;
		}
		memcpy(ALLC + n, blocks[i].cmds, sizeof(ref_cmd) * blocks[i].ncmds);
		n += blocks[i].ncmds;
	}
	sl = ref_bw_bytes(&w);
	el = ref_lz77_expand(ALLC, n, 0x20, EBUF, SCAP);
	rl = ref_lh_decode(M, SBUF, sl, el, EBUF2, &err);
	if (err || rl != el || memcmp(EBUF, EBUF2, el)) {
		printf("HARNESS reference round trip failed (err=%d %zu/%zu) for %s\n", err, rl, el, VF.desc);
		return 0;
	}
	dec_expect("lh-output", M->name, SBUF, sl, EBUF, el, 0);
	if (nontrivial) vf_nontrivial(vf_hash(SBUF, sl, (uint64_t) M->name[3]));
	return 1;
}

static ref_cmd lit(unsigned b) { ref_cmd c; memset(&c, 0, sizeof c); c.value = b; c.len = 1; return c; }
static ref_cmd cpy(unsigned off, unsigned len) { ref_cmd c; memset(&c, 0, sizeof c); c.copy = 1; c.value = off; c.len = len; return c; }

static unsigned cmds_len(const ref_cmd *c, int n)
{
	unsigned t = 0; int i;
	for (i = 0; i < n; ++i) t += c[i].copy ? c[i].len : 1;
	return t;
}

/* ------------------------------------------------------------------ space: tables */

/* command exercising code symbol s (copy symbols get offset 'off') */
static ref_cmd cmd_for_csym(int s, unsigned off)
{
	if (s < 256) return lit((unsigned) s);
	if (!M->lhark) return cpy(off, (unsigned) s - 253);
	if (s < 264) return cpy(off, (unsigned) s - 253);
	if (s == 288) { ref_cmd c = cpy(off, 514); c.variant = 1; return c; }
	{
		int k = (s - 260) / 4;
		/* largest length of the class: all extra bits set */
		return cpy(off, ((4u + (unsigned) (s % 4)) << k) + ((1u << k) - 1) + 3);
	}
}

static unsigned off_for_psym(int p, int high)
{
	if (!M->lhark) {
		if (p < 2) return (unsigned) p;
		return (1u << (p - 1)) + (high ? (1u << (p - 1)) - 1 : 0);
	}
	if (p < 4) return (unsigned) p;
	{
		int k = (p - 2) / 2;
		return ((2u + (unsigned) (p % 2)) << k) + (high ? (1u << k) - 1 : 0);
	}
}

/* run tokenisation alternatives: parts from {1, 3..18, 20..531}; writes token lists */
static int part_ok(int p) { return p == 1 || (p >= 3 && p <= 18) || (p >= 20 && p <= 531); }
static void part_tok(int p, ref_tok *t)
{
	if (p == 1) { t->t = 0; t->extra = 0; }
	else if (p <= 18) { t->t = 1; t->extra = (unsigned) p - 3; }
	else { t->t = 2; t->extra = (unsigned) p - 20; }
}
static const int PB[] = { 1, 3, 18, 20, 531 };
#define NPB 5

/* enumerate alternatives for a run r; returns count; alt k written to out (<=3 tokens), *nt */
static int run_alternative(int r, int k, ref_tok *out, int *nt)
{
	int idx = 0, a, b, o;
	if (part_ok(r)) { if (idx++ == k) { part_tok(r, &out[0]); *nt = 1; return 1; } }
	for (a = 0; a < NPB; ++a) {
		int ra = r - PB[a];
		if (ra >= 1 && part_ok(ra)) {
			for (o = 0; o < 2; ++o) {
				if (o == 1 && ra == PB[a]) continue;
				if (idx++ == k) {
					part_tok(o ? ra : PB[a], &out[0]); part_tok(o ? PB[a] : ra, &out[1]); *nt = 2; return 1;
				}
			}
		}
		for (b = 0; b < NPB; ++b) {
			int rc = r - PB[a] - PB[b];
			if (rc >= 1 && part_ok(rc)) {
				for (o = 0; o < 3; ++o) {
					if (idx++ == k) {
						int p[3];
						if (o == 0) { p[0] = PB[a]; p[1] = PB[b]; p[2] = rc; }
						else if (o == 1) { p[0] = PB[a]; p[1] = rc; p[2] = PB[b]; }
						else { p[0] = rc; p[1] = PB[a]; p[2] = PB[b]; }
						part_tok(p[0], &out[0]); part_tok(p[1], &out[1]); part_tok(p[2], &out[2]); *nt = 3;
						return 1;
					}
				}
			}
		}
	}
	return 0;
}

/* tokenise c_len with run number 'which' using alternative 'alt' (others greedy); returns 0 when alt is past the end */
static int tokenise_alt(ref_lh_block *b, int which, int alt)
{
	int i = 0, n = b->c_n, run = 0, ok = 1;
	b->ntok = 0;
	while (i < n) {
		int k = b->c_len[i++];
		if (k == 0) {
			int count = 1, nt, j;
			ref_tok tmp[3];
			while (i < n && b->c_len[i] == 0) { ++i; ++count; }
			if (run == which) {
				if (!run_alternative(count, alt, tmp, &nt)) ok = 0, nt = 0;
				for (j = 0; j < nt; ++j) b->tok[b->ntok++] = tmp[j];
				if (!ok) return 0;
			} else {
				if (count <= 2) { while (count--) { b->tok[b->ntok].t = 0; b->tok[b->ntok++].extra = 0; } }
				else if (count <= 18) { b->tok[b->ntok].t = 1; b->tok[b->ntok++].extra = (unsigned) count - 3; }
				else if (count == 19) { b->tok[b->ntok].t = 0; b->tok[b->ntok++].extra = 0; b->tok[b->ntok].t = 1; b->tok[b->ntok++].extra = 15; }
				else { b->tok[b->ntok].t = 2; b->tok[b->ntok++].extra = (unsigned) count - 20; }
			}
			++run;
		} else {
			b->tok[b->ntok].t = k + 2; b->tok[b->ntok++].extra = 0;
		}
	}
	return which < run;
}

typedef struct {
	const int *syms; int k;
	ref_cmd cmds[64]; int ncmds;
	long count;
} tab_ctx;

static void used_temp(const ref_lh_block *b, int *used, int *nused, int *maxt)
{
	int i;
	memset(used, 0, 40 * sizeof(int));
	*nused = 0; *maxt = -1;
	for (i = 0; i < b->ntok; ++i) used[b->tok[i].t] = 1;
	for (i = 0; i < 40; ++i) if (used[i]) { ++*nused; *maxt = i; }
}

/* for a block with c table + tokens set: vary the temp-table encoding */
typedef struct { ref_lh_block *b; const char *what; int used[40]; int nused, maxt; } temp_ctx;

static void temp_vector_cb(const uint8_t *len, int k, void *u)
{
	temp_ctx *t = (temp_ctx *) u;
	ref_lh_block *b = t->b;
	int i, j = 0, zeros, s;
	memset(b->t_len, 0, sizeof b->t_len);
	for (i = 0; i <= t->maxt; ++i) if (t->used[i]) b->t_len[i] = len[j++];
	b->t_n = t->maxt + 1;
	/* every legal value of the skip field: s zeros starting at index 3 (may run past t_n, as LHA itself does) */
	zeros = 0;
	while (zeros < 3 && b->t_len[3 + zeros] == 0) ++zeros;
	for (s = 0; s <= zeros; ++s) {
		if (b->t_n < 3 && s > 0) break;
		b->t_skip = s;
		if (vf_case("%s %s temp lengths k=%d [%s] skip=%d", M->name, t->what, k, vf_hex(b->t_len, b->t_n), s))
			emit_and_check(b, 1, 1);
	}
	/* the count field larger than the last used temp symbol (zero lengths up to the count; 19 is the whole temp alphabet) */
	{
		int tn;
		for (tn = t->maxt + 2; tn <= 19; tn += (tn < t->maxt + 3 ? 1 : 19 - tn > 0 ? 19 - tn : 1)) {
			b->t_n = tn;
			b->t_skip = (tn > 3 && b->t_len[3] == 0 && t->maxt >= 3) ? 1 : 0;
			if (vf_case("%s %s temp lengths k=%d [%s] count=%d (last used %d)", M->name, t->what, k, vf_hex(b->t_len, t->maxt + 1), tn, t->maxt))
				emit_and_check(b, 1, 1);
		}
		b->t_n = t->maxt + 1;
	}
}

static void vary_temp(ref_lh_block *b, const char *what, int full)
{
	temp_ctx t;
	t.b = b; t.what = what;
	used_temp(b, t.used, &t.nused, &t.maxt);
	if (t.nused < 2) {
		ref_lh_temp_auto(b);
		if (vf_case("%s %s temp single=%d", M->name, what, b->t_single))
			emit_and_check(b, 1, 1);
		return;
	}
	if (full && t.nused <= 6) {
		ref_kraft_enum(t.nused, 16, temp_vector_cb, &t);
	} else {
		/* balanced, ascending skew, descending skew (chain as deep as 16 bits allow, rest balanced below it) */
		uint8_t len[40], sk[40];
		int i, v, d, rest, L;
		for (d = t.nused - 2; d > 0; --d) {
			rest = t.nused - d;
			for (L = 0; (1 << L) < rest; ++L);
			if (d + L <= 16) break;
		}
		for (i = 0; i < d; ++i) sk[i] = (uint8_t) (i + 1);
		ref_balanced_lengths(t.nused - d, sk + d);
		for (i = d; i < t.nused; ++i) sk[i] = (uint8_t) (sk[i] + d);
		for (v = 0; v < 3; ++v) {
			if (v == 0) ref_balanced_lengths(t.nused, len);
			else for (i = 0; i < t.nused; ++i) len[i] = sk[v == 1 ? i : t.nused - 1 - i];
			temp_vector_cb(len, t.nused, &t);
		}
	}
}

static void ctable_vector_cb(const uint8_t *len, int k, void *u)
{
	tab_ctx *tc = (tab_ctx *) u;
	static ref_lh_block b;
	int i, which, alt;
	char what[200];
	ref_lh_block_auto(M, &b, tc->cmds, tc->ncmds);
	memset(b.c_len, 0, sizeof b.c_len);
	for (i = 0; i < k; ++i) b.c_len[tc->syms[i]] = len[i];
	b.c_n = tc->syms[k - 1] + 1;
	/* greedy tokens, balanced temp */
	ref_lh_tokenise(&b, 0);
	ref_lh_temp_auto(&b);
	snprintf(what, sizeof what, "csyms=%d.. clen=[%s] greedy", tc->syms[0], vf_hex(len, k));
	if (vf_case("%s %s", M->name, what)) emit_and_check(&b, 1, 1);
	/* every alternative tokenisation of each zero run in turn */
	for (which = 0; which < 8; ++which) {
		for (alt = 0;; ++alt) {
			if (!tokenise_alt(&b, which, alt)) break;
			ref_lh_temp_auto(&b);
			if (vf_case("%s csyms=%d.. clen=[%s] run#%d alt#%d", M->name, tc->syms[0], vf_hex(len, k), which, alt))
				emit_and_check(&b, 1, 1);
		}
		if (alt == 0) break;
	}
	/* code count larger than the last used code: the unused tail is written as zero lengths reaching the count */
	{
		static const int pads[] = { 1, 2, 3, 18, 19, 20, 21, 40, 9999 };
		int pi, last = tc->syms[k - 1] + 1, prev = -1;
		for (pi = 0; pi < 9; ++pi) {
			int cn = last + pads[pi];
			if (cn > M->nc) cn = M->nc;
			if (cn == last || cn == prev) continue;
			prev = cn;
			b.c_n = cn;
			ref_lh_tokenise(&b, 0);
			ref_lh_temp_auto(&b);
			if (vf_case("%s csyms=%d.. clen=[%s] count=%d (last used code %d)", M->name, tc->syms[0], vf_hex(len, k), cn, last - 1))
				emit_and_check(&b, 1, 1);
		}
		b.c_n = last;
	}
	/* temp-table encodings (all complete vectors when few temp symbols are in use) */
	ref_lh_tokenise(&b, 0);
	snprintf(what, sizeof what, "csyms=%d.. clen=[%s]", tc->syms[0], vf_hex(len, k));
	vary_temp(&b, what, tc->count++ % 7 == 0 || k <= 3);
}

static void ptable_vector_cb(const uint8_t *len, int k, void *u)
{
	tab_ctx *tc = (tab_ctx *) u;
	static ref_lh_block b;
	int i, pad;
	ref_lh_block_auto(M, &b, tc->cmds, tc->ncmds);
	memset(b.p_len, 0, sizeof b.p_len);
	for (i = 0; i < k; ++i) b.p_len[tc->syms[i]] = len[i];
	for (pad = 0; pad < 2; ++pad) {
		b.p_n = pad ? M->np : tc->syms[k - 1] + 1;
		if (pad && b.p_n == tc->syms[k - 1] + 1) break;
		if (vf_case("%s psyms=%d.. plen=[%s] p_n=%d", M->name, tc->syms[0], vf_hex(len, k), b.p_n))
			emit_and_check(&b, 1, 1);
	}
}

static void space_tables(void)
{
	int lastc = M->nc - 1;
	int firstcopy = 256;
	int b1 = M->lhark ? 263 : 300, b2 = M->lhark ? 264 : 383, b3 = M->lhark ? 287 : 508;
	int sets[][6] = {
		{ 2, 0x00, 0xFF }, { 2, 0xFF, firstcopy }, { 2, firstcopy, lastc }, { 2, 0x20, b2 },
		{ 3, 0x00, 0x20, 0xFF }, { 3, 0xFF, firstcopy, lastc }, { 3, 0x41, b1, b2 },
		{ 4, 0x00, 0x20, 0xFF, firstcopy }, { 4, 0x01, 0x14, b3, lastc },
		{ 5, 0x00, 0x20, 0xFF, firstcopy, lastc }, { 5, 0x13, 0x27, b1, b2, b3 },
	};
	unsigned s;
	tab_ctx tc;
	int i;
	/* (a)+(b) code-table shapes, tokenisations, temp encodings */
	for (s = 0; s < sizeof sets / sizeof *sets; ++s) {
		tc.k = sets[s][0]; tc.syms = &sets[s][1]; tc.ncmds = 0; tc.count = 0;
		for (i = 0; i < tc.k; ++i) tc.cmds[tc.ncmds++] = cmd_for_csym(tc.syms[i], 0);
		for (i = 0; i < tc.k; ++i) if (tc.syms[i] >= 256) tc.cmds[tc.ncmds++] = cmd_for_csym(tc.syms[i], off_for_psym(M->np - 1, 1));
		ref_kraft_enum(tc.k, 16, ctable_vector_cb, &tc);
	}
	/* chain 1,2,..,15,16,16 over 17 symbols, spread so that runs of every class occur */
	{
		static int chain[17];
		static ref_lh_block b;
		int v;
		ref_cmd cmds[40]; int n = 0;
		for (i = 0; i < 17; ++i) chain[i] = i < 9 ? i * 29 : (i < 13 ? 256 + (i - 9) * 3 : M->nc - 17 + i);
		for (i = 0; i < 17; ++i) cmds[n++] = cmd_for_csym(chain[i], 1);
		for (v = 0; v < 2; ++v) {
			ref_lh_block_auto(M, &b, cmds, n);
			memset(b.c_len, 0, sizeof b.c_len);
			for (i = 0; i < 17; ++i) {
				int pos = v ? 16 - i : i;
				b.c_len[chain[i]] = (uint8_t) (pos < 16 ? pos + 1 : 16);
			}
			b.c_n = chain[16] + 1;
			ref_lh_tokenise(&b, 0);
			vary_temp(&b, v ? "chain17-desc" : "chain17-asc", 0);
		}
	}
	/* all codes used */
	{
		static ref_lh_block b;
		static ref_cmd cmds[600];
		int n = 0;
		for (i = 0; i < M->nc; ++i) cmds[n++] = cmd_for_csym(i, (unsigned) (i % 5));
		ref_lh_block_auto(M, &b, cmds, n);
		if (vf_case("%s all %d codes used", M->name, M->nc)) emit_and_check(&b, 1, 1);
		vary_temp(&b, "all-codes", 0);
	}
	/* single-symbol forms of each table */
	{
		static ref_lh_block b;
		int syms[] = { 0x00, 0x20, 0xFF, firstcopy, b2, lastc };
		unsigned k;
		int p;
		for (k = 0; k < sizeof syms / sizeof *syms; ++k)
		for (p = 0; p < M->np; ++p) {
			ref_cmd cmds[3];
			if (syms[k] < 256 && p > 0) break;
			cmds[0] = cmd_for_csym(syms[k], off_for_psym(p, 0));
			cmds[1] = cmds[0];
			if (cmds[0].copy) cmds[1].value = off_for_psym(p, 1);
			cmds[2] = cmds[0];
			ref_lh_block_auto(M, &b, cmds, 3);
			if (vf_case("%s single code symbol %d, single offset symbol %d", M->name, syms[k], p)) emit_and_check(&b, 1, 1);
		}
	}
	/* (c) offset-table shapes: every complete vector over boundary offset symbols, trimmed and padded */
	{
		int last = M->np - 1;
		int psets[][5] = { { 2, 0, 1 }, { 2, 0, last }, { 2, last - 1, last }, { 3, 0, 1, last }, { 3, 2, 3, last },
		                   { 4, 0, 1, 2, last }, { 4, 1, last - 2, last - 1, last } };
		for (s = 0; s < sizeof psets / sizeof *psets; ++s) {
			tc.k = psets[s][0]; tc.syms = &psets[s][1]; tc.ncmds = 0;
			tc.cmds[tc.ncmds++] = lit(0x55);
			for (i = 0; i < tc.k; ++i) {
				tc.cmds[tc.ncmds++] = cpy(off_for_psym(tc.syms[i], 0), 3);
				tc.cmds[tc.ncmds++] = cpy(off_for_psym(tc.syms[i], 1), M->lhark ? 514 : 256);
			}
			ref_kraft_enum(tc.k, 16, ptable_vector_cb, &tc);
		}
		/* every offset symbol used at once (balanced) and the chain over all of them */
		{
			static ref_lh_block b;
			static ref_cmd cmds[200];
			int n = 0, v;
			cmds[n++] = lit(0x7E);
			for (i = 0; i < M->np; ++i) { cmds[n++] = cpy(off_for_psym(i, 0), 3); cmds[n++] = cpy(off_for_psym(i, 1), 4); }
			for (v = 0; v < 3; ++v) {
				ref_lh_block_auto(M, &b, cmds, n);
				if (v && M->np <= 17) {
					for (i = 0; i < M->np; ++i) {
						int pos = v == 1 ? i : M->np - 1 - i;
						b.p_len[i] = (uint8_t) (pos + 1 < M->np ? pos + 1 : M->np - 1);
					}
				} else if (v) break;
				if (vf_case("%s all %d offset symbols variant %d", M->name, M->np, v)) emit_and_check(&b, 1, 1);
			}
		}
	}
}

/* ------------------------------------------------------------------ space: seq */

static int seq_letter(int letter, unsigned produced, ref_cmd *out)
{
	static const unsigned lens_std[3] = { 3, 4, 256 }, lens_lk[3] = { 3, 19, 514 };
	unsigned d, l;
	if (letter == 0) { *out = lit(0x61); return 1; }
	if (letter == 1) { *out = lit(0xF0); return 1; }
	letter -= 2;
	l = (M->lhark ? lens_lk : lens_std)[letter % 3];
	switch (letter / 3) {
	case 0: d = 0; break;
	case 1: d = 1; break;
	case 2: d = 2; break;
	case 3: d = produced > 0 ? produced - 1 : 0; break;   /* first byte produced */
	case 4: d = produced; break;                          /* last pre-filled space */
	default: d = M->window - 1; break;
	}
	if (d >= M->window) d = M->window - 1;
	*out = cpy(d, l);
	return 1;
}
#define SEQ_LETTERS 20

static void space_seq(int depth)
{
	int idx[8], d, i;
	static ref_lh_block b;
	for (d = 1; d <= depth; ++d) {
		memset(idx, 0, sizeof idx);
		for (;;) {
			ref_cmd c[8];
			int hascopy = 0;
			for (i = 0; i < d; ++i) { seq_letter(idx[i], cmds_len(c, i), &c[i]); hascopy |= c[i].copy; }
			if (vf_case("%s seq %s", M->name, cmds_str(c, d))) {
				ref_lh_block_auto(M, &b, c, d);
				emit_and_check(&b, 1, hascopy);
			}
			for (i = d - 1; i >= 0; --i) { if (++idx[i] < SEQ_LETTERS) break; idx[i] = 0; }
			if (i < 0) break;
		}
	}
}

/* ------------------------------------------------------------------ space: blocks */

static void space_blocks(int maxn)
{
	static ref_lh_block bl[8];
	static ref_cmd padded[8][16];
	int n, i;
	for (n = 1; n <= maxn; ++n) {
		int seqs = 1, s;
		for (i = 0; i < n; ++i) seqs *= 3;
		for (s = 0; s < seqs; ++s) {
			ref_cmd c[8];
			int t = s, part;
			for (i = 0; i < n; ++i, t /= 3)
				c[i] = t % 3 == 0 ? lit(0x41) : t % 3 == 1 ? lit(0x42) : cpy(cmds_len(c, i) > 1 ? 1 : 0, 3);
			for (part = 0; part < (1 << (n - 1)); ++part) {
				int nb = 0, start = 0;
				if (!vf_case("%s blocks n=%d cmds=%s partition=%x", M->name, n, cmds_str(c, n), part)) continue;
				for (i = 0; i < n; ++i) {
					if (i == n - 1 || (part >> i) & 1) {
						/* block [start..i]; odd blocks carry a table with an extra coded but unused symbol */
						int len = i - start + 1;
						if (nb & 1) {
							/* build the tables from commands + a phantom literal, then drop the phantom */
							memcpy(padded[nb], c + start, sizeof(ref_cmd) * len);
							padded[nb][len] = lit(0x7F);
							padded[nb][len + 1] = cpy(5, 9);
							ref_lh_block_auto(M, &bl[nb], padded[nb], len + 2);
							bl[nb].ncmds = len;
						} else {
							ref_lh_block_auto(M, &bl[nb], c + start, len);
						}
						++nb;
						start = i + 1;
					}
				}
				emit_and_check(bl, nb, nb > 1);
			}
		}
	}
}

/* blocks whose 16-bit command count is at and around the sizes of 8/15/16-bit counters, each followed by a second block */
static void space_bigblocks(void)
{
	static const int sizes[] = { 255, 256, 257, 4095, 4096, 32767, 32768, 65534, 65535 };
	static ref_lh_block bl[2];
	static ref_cmd big[65536 + 8], small[4];
	unsigned si;
	int style;
	for (si = 0; si < sizeof sizes / sizeof *sizes; ++si)
	for (style = 0; style < 2; ++style) {
		int n = sizes[si], i;
		unsigned produced = 0;
		if (!vf_case("%s block of %d commands (%s) followed by a block of 3", M->name, n, style ? "literals and copies" : "literals only")) continue;
		for (i = 0; i < n; ++i) {
			if (style && i % 5 == 4 && produced > 8) { big[i] = cpy((unsigned) (i * 7) % (produced < 200 ? produced - 1 : 200), 3 + (unsigned) (i % 6)); produced += big[i].len; }
			else { big[i] = lit((unsigned) (i * 31 + (i >> 8)) & 0xFF); ++produced; }
		}
		small[0] = lit(0x5A); small[1] = cpy(1, 4); small[2] = lit(0xA5);
		if (!ref_lh_block_auto(M, &bl[0], big, n) || !ref_lh_block_auto(M, &bl[1], small, 3)) { printf("HARNESS big block not expressible\n"); continue; }
		emit_and_check(bl, 2, 1);
	}
}

/* ------------------------------------------------------------------ space: wrap */

static void space_wrap(void)
{
	/* prefixes that leave the write position at S-2..S+2 for S = official window and twice / four times that */
	static ref_lh_block bl[40];
	static ref_cmd pre[(1 << 21) + 64];
	unsigned seams[3] = { M->window, 2 * M->window, 4 * M->window };
	int si, style, delta;
	unsigned maxlen = M->lhark ? 514 : 256;
	for (si = 0; si < (VF.thorough ? 3 : 2); ++si)
	for (style = 0; style < 3; ++style)
	for (delta = -2; delta <= 2; ++delta) {
		unsigned P = seams[si] + delta, n = 0, produced = 0, k;
		unsigned ds[] = { 0, 1, 2, 3, maxlen - 1, maxlen, M->window - 1, M->window - 2, M->window / 2 };
		unsigned ls[] = { 3, 4, maxlen };
		unsigned di, li;
		if (P > (1u << 21)) continue;
		/* build the prefix */
		while (produced < P) {
			unsigned left = P - produced;
			if (style == 0 || left < 3 || produced == 0) { pre[n++] = lit((produced * 7 + 1 + (produced >> 8) * 29) & 0xFF); produced += 1; }
			else if (style == 1) {
				unsigned l = left >= maxlen + 3 || left == maxlen ? maxlen : (left > maxlen ? left - maxlen >= 3 ? maxlen : 3 : left);
				if (l > left) l = left;
				pre[n++] = cpy(produced > 40 ? 37 : 0, l); produced += l;
			} else {
				if ((n & 3) == 0) { pre[n++] = lit((produced * 13 + (produced >> 8) * 5) & 0xFF); produced += 1; }
				else {
					unsigned l = 3 + (n * 11) % 14;
					if (l > left) l = left;
					if (left - l > 0 && left - l < 3 && l > 5) l -= 3;
					pre[n++] = cpy((produced * 5) % (produced < M->window ? produced : M->window), l); produced += l;
				}
			}
		}
		for (di = 0; di < sizeof ds / sizeof *ds; ++di)
		for (li = 0; li < 3; ++li) {
			int nb = 0;
			unsigned start = 0;
			if (!vf_case("%s wrap seam=%u style=%d produced=%u then C(%u,%u) L C(%u,%u)", M->name, seams[si], style, P, ds[di], ls[li], ds[di], ls[2 - li])) continue;
			pre[n] = cpy(ds[di], ls[li]);
			pre[n + 1] = lit(0x5A);
			pre[n + 2] = cpy(ds[di], ls[2 - li]);
			/* split into blocks of at most 60000 commands */
			for (k = 0; k < n + 3; k += 60000) {
				unsigned len = n + 3 - k > 60000 ? 60000 : n + 3 - k;
				if (!ref_lh_block_auto(M, &bl[nb], pre + k, (int) len)) { printf("HARNESS wrap block\n"); }
				++nb;
				start = k;
			}
			(void) start;
			emit_and_check(bl, nb, 1);
		}
	}
}

int main(int argc, char **argv)
{
	const char *meth;
	dec_no_aslr(argv);
	vf_init(argc, argv);
	SBUF = malloc(SCAP); EBUF = malloc(SCAP); EBUF2 = malloc(SCAP);
	meth = vf_extra("method", "-lh5-");
	M = ref_lh_params_for(meth);
	if (!M) { fprintf(stderr, "bad method\n"); return 2; }
	if (!strcmp(VF.space, "tables")) space_tables();
	else if (!strcmp(VF.space, "seq")) space_seq(atoi(vf_extra("depth", "3")));
	else if (!strcmp(VF.space, "blocks")) { space_blocks(atoi(vf_extra("maxn", "6"))); space_bigblocks(); }
	else if (!strcmp(VF.space, "wrap")) space_wrap();
	else { fprintf(stderr, "unknown space %s\n", VF.space); return 2; }
	vf_done();
	return 0;
}
