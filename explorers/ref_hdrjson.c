/* reference parser + normaliser -> one JSON object per member (strings hex encoded):
 * usage: ref_hdrjson <archive> <offset of first header> [london] */
#include <stdio.h>
#include <stdlib.h>
#include <string.h>
#include "ref_header.h"

static int last_sunday(int year, int month)
{
	static const int mdays[] = { 31, 28, 31, 30, 31, 30, 31, 31, 30, 31, 30, 31 };
	static const int t[] = { 0, 3, 2, 5, 0, 3, 5, 1, 4, 6, 2, 4 };
	int d = mdays[month - 1], y = year, m = month, dow;
	if (m < 3) y -= 1;
	dow = (y + y / 4 - y / 100 + y / 400 + t[m - 1] + d) % 7;
	return d - dow;
}
static uint32_t london_adjust(uint32_t dos, uint32_t utc_as_if)
{
	int year = 1980 + ((dos >> 25) & 0x7F), mon = (dos >> 21) & 0xF, day = (dos >> 16) & 0x1F, hour = (dos >> 11) & 0x1F;
	int bst = 0;
	if (dos == 0) return 0;
	if (mon > 3 && mon < 10) bst = 1;
	else if (mon == 3) { int ls = last_sunday(year, 3); bst = day > ls || (day == ls && hour >= 2); }
	else if (mon == 10) { int ls = last_sunday(year, 10); bst = day < ls || (day == ls && hour < 1); }
	return utc_as_if - (bst ? 3600 : 0);
}
static void hex(const char *k, const char *s, int has)
{
	printf("\"%s\":", k);
	if (!has) { printf("null,"); return; }
	printf("\"");
	for (; *s; ++s) printf("%02x", (unsigned char) *s);
	printf("\",");
}
int main(int argc, char **argv)
{
	FILE *f = fopen(argv[1], "rb");
	size_t off = argc > 2 ? (size_t) atol(argv[2]) : 0, len;
	int london = argc > 3;
	uint8_t *buf;
	if (!f) return 2;
	fseek(f, 0, SEEK_END); len = (size_t) ftell(f); fseek(f, 0, SEEK_SET);
	buf = malloc(len + 1);
	if (fread(buf, 1, len, f) != len) return 2;
	while (off < len) {
		ref_hdr h;
		ref_norm n;
		const char *why;
		int i;
		if (ref_hdr_parse(buf + off, len - off, &h, &why) != REF_INT_OK) break;
		if (!ref_hdr_normalise(&h, &n)) break;
		if (london && h.level <= 1 && n.timestamp == ref_dos_to_unix(h.time_raw)) n.timestamp = london_adjust(h.time_raw, n.timestamp);
		printf("{");
		hex("path", n.path, n.has_path); hex("filename", n.filename, n.has_filename); hex("target", n.target, n.has_target);
		printf("\"method\":\"");
		for (i = 0; i < 5; ++i) printf("%02x", (unsigned char) n.method[i]);
		printf("\",\"compressed_length\":%u,\"length\":%u,\"level\":%d,\"os_type\":%d,\"crc\":%u,\"timestamp\":%u,\"flags\":%u,\"unix_perms\":%u,\"uid\":%u,\"gid\":%u,\"os9_perms\":%u}\n",
		       n.compressed_length, n.length, n.level, n.os_type, n.crc, n.timestamp, n.extra_flags, n.unix_perms, n.unix_uid, n.unix_gid, n.os9_perms);
		off += h.header_len + h.packed;
		ref_norm_free(&n);
	}
	return 0;
}
