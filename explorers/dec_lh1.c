/* E1 / C02: -lh1- in lock-step with LZHUF.  In every explored encoder state the code word of EACH of
 * the 314 symbols is checked through the real decoder (two prefix codes are equal iff every symbol has
 * the same word). */
#include "dec_common.h"
#include "ref_lh1.h"

#define BCAP (6u << 20)
static uint8_t *SBUF, *EBUF, *OBUF;
static ref_lh1_tree TREE, TREE2;

static const int ALPHA[10] = { 0, 1, 0x20, 0x41, 0xFE, 0xFF, 256, 257, 312, 313 };

typedef struct {
	ref_bw w;
	size_t elen;        /* expected output so far */
	long nsyms;
} enc_t;
static enc_t E;

static void enc_reset(void)
{
	ref_lh1_start(&TREE);
	ref_bw_init(&E.w, SBUF, BCAP);
	E.elen = 0;
	E.nsyms = 0;
}

static void expect_append(int sym, unsigned off)
{
	if (sym < 256) EBUF[E.elen++] = (uint8_t) sym;
	else {
		unsigned len = (unsigned) sym - 253, j;
		for (j = 0; j < len; ++j) {
			EBUF[E.elen] = E.elen > off ? EBUF[E.elen - off - 1] : 0x20;
			++E.elen;
		}
	}
}

static void enc_symbol(int sym, unsigned off)
{
	ref_lh1_put_symbol(&TREE, &E.w, sym);
	if (sym >= 256) ref_lh1_put_position(&E.w, off);
	expect_append(sym, off);
	++E.nsyms;
}

/* decode the current stream and compare with the expectation */
static int check_now(const char *site, const char *what)
{
	dec_result r;
	size_t sl = ref_bw_bytes(&E.w);
	size_t got = dec_run("-lh1-", SBUF, sl, E.elen, OBUF, 0, 0, &r);
	if (got != E.elen || memcmp(OBUF, EBUF, E.elen)) {
		size_t i, m = got < E.elen ? got : E.elen;
		for (i = 0; i < m && OBUF[i] == EBUF[i]; ++i);
		vf_viol(site, "%s: expected %zu bytes got %zu, first difference at %zu (stream %zu bytes, %ld symbols, %ld rebuilds)",
		        what, E.elen, got, i, sl, E.nsyms, TREE.rebuilds);
		return 0;
	}
	if (r.getlen != E.elen || r.crc != ref_crc16(0, EBUF, E.elen)) {
		vf_viol("decoder-crc-length", "%s: accessor mismatch", what);
		return 0;
	}
	if ((E.nsyms & 7) == 5 && sl > 0 && sl <= 4000 && E.elen > 0) {
		/* the stream reaches the decoder through another -lh1- decoder (a stream of literals holding its bytes)
		 * whose read function is called from inside the input callback with the caller's buffer */
		static uint8_t inner_stream[40000];
		size_t il, tot = 0, g;
		LHADecoder *inner, *outer;
		il = literal_stream("-lh1-", SBUF, sl, inner_stream, sizeof inner_stream);
		VIN2.p = inner_stream; VIN2.n = il; VIN2.pos = 0;
		inner = il ? lha_decoder_new(lha_decoder_for_name("-lh1-"), vin2_cb, &VIN2, sl) : NULL;
		outer = inner ? lha_decoder_new(lha_decoder_for_name("-lh1-"), dec_nest_cb, inner, E.elen) : NULL;
		if (outer) {
			while (tot <= E.elen && (g = lha_decoder_read(outer, OBUF + tot, E.elen + 1 - tot)) > 0) tot += g;
			if (tot != E.elen || memcmp(OBUF, EBUF, E.elen))
				vf_viol("decoder-chained", "%s: output differs when the input comes through another decoder called from the input callback (%zu of %zu bytes)", what, tot, E.elen);
			lha_decoder_free(outer);
		}
		if (inner) lha_decoder_free(inner);
	}
	if ((E.nsyms & 7) == 3) {
		/* the same stream with the input delivered in pieces of 1..3 bytes */
		int ch = 1 + (int) (E.nsyms % 3);
		got = dec_run("-lh1-", SBUF, sl, E.elen, OBUF, 0, ch, &r);
		if (got != E.elen || memcmp(OBUF, EBUF, E.elen)) {
			vf_viol("decoder-input-chunking", "%s: output differs when the input callback delivers at most %d bytes per call (%zu of %zu bytes)", what, ch, got, E.elen);
			return 0;
		}
	}
	return 1;
}

/* the 314-way probe in the current state */
static void probe_all(void)
{
	size_t save_bits = E.w.nbits, save_elen = E.elen;
	long save_nsyms = E.nsyms;
	int x, bad = 0;
	uint64_t sig = 0;
	for (x = 0; x < LH1_NCHAR && bad < 3; ++x) {
		unsigned off = x >= 256 ? (unsigned) ((x * 29) % 4096) : 0;
		char what[64];
		uint64_t hi, lo;
		int cl;
		size_t k;
		TREE2 = TREE;
		cl = ref_lh1_code(&TREE, x, &hi, &lo);
		sig = vf_mix(sig, ((uint64_t) cl << 56) ^ lo ^ (hi << 20));
		/* write x after the prefix */
		ref_lh1_put_symbol(&TREE2, &E.w, x);
		if (x >= 256) ref_lh1_put_position(&E.w, off);
		expect_append(x, off);
		++E.nsyms;
		snprintf(what, sizeof what, "probe symbol %d (code length %d)", x, cl);
		if (!check_now("lh1-code", what)) ++bad;
		/* restore */
		for (k = save_bits / 8 + 1; k <= E.w.nbits / 8 + 1 && k < BCAP; ++k) SBUF[k] = 0;
		SBUF[save_bits / 8] &= (uint8_t) (0xFF00 >> (save_bits % 8));
		E.w.nbits = save_bits;
		E.elen = save_elen;
		E.nsyms = save_nsyms;
	}
	vf_outcome(sig);         /* distinct complete code assignments seen */
	vf_nontrivial(sig);
}

/* prefix generators for the deep states */
static int gen_symbol(int g, long i, unsigned *off)
{
	static const char text[] = "the quick brown fox jumps over the lazy dog. THE QUICK BROWN FOX! 0123456789\r\n";
	*off = (unsigned) ((i * 7 + 3) % 4096);
	switch (g) {
	case 0: return (int) (i % 314);
	case 1: return 0x41;
	case 2: return (i & 1) ? 0x42 : 0x41;
	case 3: { int z = 0; long v = i + 1; while (!(v & 1) && z < 300) { v >>= 1; ++z; } return z; }
	case 4: return (int) ((i / 7) % 314);
	case 5: return (int) (313 - (i % 314));
	case 6: return (int) ((i * 37) % 314);
	case 8: {
		/* eight symbols used 377, 610, ..., 10946 times (Fibonacci), everything else never: the 306 unused symbols end
		 * up 17 levels deep (an optimal code for these weights has depth 17) */
		static const long cnt[8] = { 377, 610, 987, 1597, 2584, 4181, 6765, 10946 };
		long acc = 0;
		int k = 0;
		while (k < 7 && acc + cnt[k] <= i) { acc += cnt[k]; ++k; }
		return k * 3;
	}
	default:
		if (i % 5 == 4) return 256 + (int) (i % 58);
		return (uint8_t) text[i % (sizeof text - 1)];
	}
}

int main(int argc, char **argv)
{
	dec_no_aslr(argv);
	vf_init(argc, argv);
	SBUF = malloc(BCAP); EBUF = malloc(BCAP); OBUF = malloc(BCAP);

	if (!strcmp(VF.space, "seq")) {
		/* all symbol sequences to the depth over the 10-symbol alphabet, each followed by the probe */
		int depth = atoi(vf_extra("depth", "3")), d, i, idx[8];
		for (d = 0; d <= depth; ++d) {
			memset(idx, 0, sizeof idx);
			for (;;) {
				char s[128]; int o = 0;
				s[0] = 0;
				for (i = 0; i < d; ++i) o += snprintf(s + o, sizeof s - o, "%d ", ALPHA[idx[i]]);
				if (vf_case("lh1 symbols [%s] then each of 314", s)) {
					enc_reset();
					for (i = 0; i < d; ++i) enc_symbol(ALPHA[idx[i]], 0);
					probe_all();
				}
				for (i = d - 1; i >= 0; --i) { if (++idx[i] < 10) break; idx[i] = 0; }
				if (i < 0) break;
			}
		}
	} else if (!strcmp(VF.space, "full")) {
		/* depth 1 (thorough: 2) over the full alphabet */
		int a, b, two = atoi(vf_extra("depth", "1")) >= 2;
		for (a = 0; a < 314; ++a)
		for (b = -1; b < (two ? 314 : 0); ++b) {
			if (!vf_case("lh1 symbols [%d %d] then each of 314", a, b)) continue;
			enc_reset();
			enc_symbol(a, 1);
			if (b >= 0) enc_symbol(b, 2);
			probe_all();
		}
	} else if (!strcmp(VF.space, "cover")) {
		/* the first k symbols of several permutations of the whole alphabet (one and two rounds) */
		int g, k, round;
		static const int gens[] = { 0, 5, 6 };
		for (g = 0; g < 3; ++g)
		for (round = 0; round < 2; ++round)
		for (k = 300; k <= 316; ++k) {
			long i, n = round * 314 + k;
			if (!vf_case("lh1 permutation %d first %ld symbols then each of 314", gens[g], n)) continue;
			enc_reset();
			for (i = 0; i < n; ++i) { unsigned off; int s = gen_symbol(gens[g], i, &off); enc_symbol(s, off); }
			probe_all();
		}
	} else if (!strcmp(VF.space, "rebuild")) {
		/* deterministic prefixes that stop around the n-th rebuild, then all suffixes over the alphabet */
		int nth = atoi(vf_extra("nth", "1")), sufdepth = atoi(vf_extra("suffix", "1"));
		int g, delta, s1, s2;
		for (g = 0; g < 8; ++g) {
			if (!VF.thorough && !(g == 0 || g == 2 || g == 3 || g == 7)) continue;
			/* locate the rebuild with the reference alone */
			long at = -1, i;
			ref_lh1_start(&TREE2);
			for (i = 0; i < 400000 && at < 0; ++i) {
				unsigned off; int s = gen_symbol(g, i, &off);
				ref_lh1_update(&TREE2, s);
				if (TREE2.rebuilds == nth) at = i;      /* symbol i triggered the rebuild */
			}
			if (at < 0) { printf("HARNESS no rebuild found for generator %d\n", g); continue; }
			for (delta = VF.thorough ? -2 : -1; delta <= 1; ++delta)
			for (s1 = -1; s1 < (sufdepth >= 1 ? 10 : 0); ++s1)
			for (s2 = -1; s2 < (sufdepth >= 2 && s1 >= 0 ? 10 : 0); ++s2) {
				long n = at + delta;
				if (!vf_case("lh1 generator %d, %ld symbols (rebuild #%d at symbol %ld), suffix [%d %d], then each of 314",
				             g, n, nth, at, s1 < 0 ? -1 : ALPHA[s1], s2 < 0 ? -1 : ALPHA[s2])) continue;
				enc_reset();
				for (i = 0; i < n; ++i) { unsigned off; int s = gen_symbol(g, i, &off); enc_symbol(s, off); }
				if (s1 >= 0) enc_symbol(ALPHA[s1], 5);
				if (s2 >= 0) enc_symbol(ALPHA[s2], 6);
				probe_all();
			}
		}
	} else if (!strcmp(VF.space, "deep")) {
		/* code words far beyond 16 bits: Fibonacci-shaped histories of growing length, probe of all 314 symbols after each */
		static const long lens[] = { 377, 987, 1974, 3571, 6155, 10336, 17101, 28047 };
		unsigned li;
		for (li = 0; li < sizeof lens / sizeof *lens; ++li) {
			long i;
			int x, maxlen = 0;
			if (!vf_case("lh1 Fibonacci-shaped history of %ld symbols then each of 314", lens[li])) continue;
			enc_reset();
			for (i = 0; i < lens[li]; ++i) { unsigned off; int sy = gen_symbol(8, i, &off); enc_symbol(sy, off); }
			for (x = 0; x < LH1_NCHAR; ++x) { uint64_t hi, lo; int cl = ref_lh1_code(&TREE, x, &hi, &lo); if (cl > maxlen) maxlen = cl; }
			printf("NOTE deep%u=history:%ld,longest-code:%d\n", li, lens[li], maxlen);
			probe_all();
		}
	} else if (!strcmp(VF.space, "stairs")) {
		/* histories in which K symbols have K pairwise different counts (symbol k sent k+1 times), so that the leaves and the
		 * internal nodes together carry several hundred different frequencies at one moment: every frequency class in use */
		static const int Ks[] = { 20, 60, 120, 180, 220, 250, 280, 314 };
		unsigned ki;
		int order;
		for (ki = 0; ki < sizeof Ks / sizeof *Ks; ++ki)
		for (order = 0; order < 3; ++order) {
			int K = Ks[ki], k, r, x, distinct = 0;
			static unsigned char seen[65536];
			if (!vf_case("lh1 staircase history: %d symbols with counts 1..%d, order %d, then each of 314", K, K, order)) continue;
			enc_reset();
			if (order == 0) {
				for (k = 0; k < K; ++k) for (r = 0; r <= k; ++r) enc_symbol(k, (unsigned) (k * 13 + r) % 4096);
			} else if (order == 1) {
				/* round r sends every symbol whose count is still short */
				for (r = 0; r < K; ++r) for (k = r; k < K; ++k) enc_symbol(k, (unsigned) (k * 13 + r) % 4096);
			} else {
				for (k = K - 1; k >= 0; --k) for (r = 0; r <= K - 1 - k; ++r) enc_symbol(313 - k, (unsigned) (k * 7 + r) % 4096);
			}
			memset(seen, 0, sizeof seen);
			for (x = 0; x < LH1_T; ++x) if (TREE.freq[x] < 65536 && !seen[TREE.freq[x]]) { seen[TREE.freq[x]] = 1; ++distinct; }
			printf("NOTE stairs%d.%d=symbols:%ld,distinct-frequencies:%d,rebuilds:%ld\n", K, order, E.nsyms, distinct, TREE.rebuilds);
			check_now("lh1-output", "staircase history");
			probe_all();
		}
	} else if (!strcmp(VF.space, "pos")) {
		/* every upper distance code x low bits {0,63} x lengths {3,60}, after prefixes of 0, 1, 70 and 4095..4098 bytes */
		static const int pres[] = { 0, 1, 70, 4094, 4095, 4096, 4097, 4098, 8191, 8193 };
		unsigned pi, u, lo, li;
		for (pi = 0; pi < sizeof pres / sizeof *pres; ++pi)
		for (u = 0; u < 64; ++u)
		for (lo = 0; lo < 3; ++lo)
		for (li = 0; li < 2; ++li) {
			unsigned off = (u << 6) | (lo == 0 ? 0 : lo == 1 ? 63 : 21);
			int sym = li ? 313 : 256, i;
			if (!vf_case("lh1 %d literals then copy offset=%u len=%d then literal then copy", pres[pi], off, sym - 253)) continue;
			enc_reset();
			for (i = 0; i < pres[pi]; ++i) enc_symbol((i * 11 + 1 + (i >> 8) * 37) & 0xFF, 0);      /* no period of 256: window slots 256 apart differ */
			enc_symbol(sym, off);
			enc_symbol(0x7A, 0);
			enc_symbol(li ? 256 : 313, off);
			check_now("lh1-output", "position codes");
			vf_nontrivial(vf_mix(pres[pi], ((uint64_t) off << 8) | li));
			vf_outcome(vf_hash(EBUF, E.elen, 0));
		}
	} else {
		fprintf(stderr, "unknown space %s\n", VF.space);
		return 2;
	}
	vf_done();
	return 0;
}
