/* E1 / C03: stored methods, -lzs-, -lz5- against the absolute-position LZ77 reference */
#include "dec_common.h"

static uint8_t SBUF[1 << 16], EBUF[1 << 17], EBUF2[1 << 17];

static void check_cmds(const char *method, int variant, const ref_cmd *c, int n, int nontrivial)
{
	size_t sl = variant == 's' ? ref_lzs_serialise(c, n, SBUF, sizeof SBUF) : ref_lz5_serialise(c, n, SBUF, sizeof SBUF);
	size_t el = ref_larc_expand(c, n, variant, EBUF, sizeof EBUF);
	size_t rl = variant == 's' ? ref_lzs_decode(SBUF, sl, el, EBUF2) : ref_lz5_decode(SBUF, sl, el, EBUF2);
	if (rl != el || memcmp(EBUF, EBUF2, el)) {
		printf("HARNESS reference round trip failed for %s %s\n", method, cmds_str(c, n));
		return;
	}
	dec_expect("larc-output", method, SBUF, sl, EBUF, el, 0);
	/* the same commands with the unused flag bits of the last run (-lz5-) / the padding bits of the last byte (-lzs-) set to one
	 * instead of zero: a literal announced with no byte left is the end of the data, the commands before it stand */
	{
		static uint8_t alt[sizeof SBUF];
		int changed = 0;
		memcpy(alt, SBUF, sl);
		if (variant != 's' && n % 8 != 0) {
			size_t o = 0, flagpos = 0;
			int i;
			for (i = 0; i < n; ++i) { if (i % 8 == 0) flagpos = o++; o += c[i].copy ? 2 : 1; }
			alt[flagpos] |= (uint8_t) (0xFF << (n % 8));
			changed = 1;
		} else if (variant == 's') {
			size_t bits = 0;
			int i;
			for (i = 0; i < n; ++i) bits += c[i].copy ? 16 : 9;
			if (bits % 8) { alt[sl - 1] |= (uint8_t) (0xFF >> (bits % 8)); changed = 1; }
		}
		if (changed && sl) {
			rl = variant == 's' ? ref_lzs_decode(alt, sl, el, EBUF2) : ref_lz5_decode(alt, sl, el, EBUF2);
			if (rl == el && !memcmp(EBUF, EBUF2, el)) dec_expect("larc-output-ones-padding", method, alt, sl, EBUF, el, 0);
		}
	}
	if (nontrivial) vf_nontrivial(vf_hash(SBUF, sl, variant));
}

/* alphabet used for the sequence spaces; positions are relative to the current write position */
static int seq_alphabet(int variant, unsigned produced, int letter, ref_cmd *out)
{
	unsigned R = variant == 's' ? 2048 : 4096;
	unsigned start = variant == 's' ? 2048 - 17 : 4096 - 18;
	unsigned w = (start + produced) % R;
	unsigned minlen = variant == 's' ? 2 : 3, maxlen = variant == 's' ? 17 : 18;
	unsigned positions[6];
	positions[0] = (w + R - 1) % R; positions[1] = w; positions[2] = (w + 1) % R;
	positions[3] = 0; positions[4] = R - 1; positions[5] = 1000;
	if (letter == 0) { out->copy = 0; out->value = 0x41; out->len = 1; return 1; }
	if (letter == 1) { out->copy = 0; out->value = 0xFE; out->len = 1; return 1; }
	letter -= 2;
	if (letter >= 12) return 0;
	out->copy = 1;
	out->value = positions[letter / 2];
	out->len = (letter & 1) ? maxlen : minlen;
	return 1;
}
#define NLETTERS 14

static unsigned cmds_len(const ref_cmd *c, int n)
{
	unsigned t = 0; int i;
	for (i = 0; i < n; ++i) t += c[i].copy ? c[i].len : 1;
	return t;
}

static void seq_space(const char *method, int variant, int depth)
{
	int idx[8], d, i;
	for (d = 1; d <= depth; ++d) {
		memset(idx, 0, sizeof idx);
		for (;;) {
			ref_cmd c[8];
			int hascopy = 0;
			for (i = 0; i < d; ++i) {
				seq_alphabet(variant, cmds_len(c, i), idx[i], &c[i]);
				hascopy |= c[i].copy;
			}
			if (vf_case("%s seq %s", method, cmds_str(c, d)))
				check_cmds(method, variant, c, d, hascopy);
			for (i = d - 1; i >= 0; --i) {
				if (++idx[i] < NLETTERS) break;
				idx[i] = 0;
			}
			if (i < 0) break;
		}
	}
}

int main(int argc, char **argv)
{
	dec_no_aslr(argv);
	vf_init(argc, argv);

	if (!strcmp(VF.space, "stored")) {
		static const char *methods[] = { "-lh0-", "-lz4-", "-pm0-" };
		static uint8_t data[4300];
		int m, n, k;
		int maxn = atoi(vf_extra("maxn", "2100"));
		for (n = 0; n < (int) sizeof data; ++n) data[n] = (uint8_t) (n * 13 + (n >> 8) * 7 + 1);
		for (m = 0; m < 3; ++m)
		for (n = 0; n <= maxn; ++n) {
			long decl[5] = { 0, n - 1, n, n + 1, 2 * n };
			for (k = 0; k < 5; ++k) {
				size_t want;
				if (decl[k] < 0) continue;
				if (!vf_case("%s stored n=%d declared=%ld", methods[m], n, decl[k])) continue;
				want = (size_t) decl[k] < (size_t) n ? (size_t) decl[k] : (size_t) n;
				/* declared length above the data: the decoder delivers what exists */
				{
					dec_result r;
					uint8_t *out = malloc(decl[k] + 2);
					size_t got = dec_run(methods[m], data, n, decl[k], out, 0, 0, &r);
					if (got != want || memcmp(out, data, want))
						vf_viol("stored-output", "method=%s n=%d declared=%ld got %zu bytes, want %zu", methods[m], n, decl[k], got, want);
					if (r.getlen != got || r.crc != ref_crc16(0, data, want))
						vf_viol("decoder-crc-length", "method=%s n=%d declared=%ld length/crc accessor mismatch", methods[m], n, decl[k]);
					vf_outcome(vf_hash(out, got, m));
					/* the same data delivered by the input callback in pieces (constant 1..3 bytes, irregular, 700 and 1023 bytes:
					 * a piece shorter than the decoder's own block is not the end of the data) */
					if (k == 2 && n > 0) {
						static const int chunks[6] = { 1, 3, -1, -3, 700, 1023 };
						int ci = (n + m) % 6;
						got = dec_run(methods[m], data, n, decl[k], out, 0, chunks[ci], &r);
						if (got != want || memcmp(out, data, want))
							vf_viol("decoder-input-chunking", "method=%s n=%d: output differs when the input callback delivers its bytes in pieces (mode %d): %zu of %zu bytes", methods[m], n, chunks[ci], got, want);
					}
					/* two decoders of the stored methods alive at once, read alternately */
					if (k == 2 && n > 1 && (n % 3) == 0) {
						LHADecoderType *t1 = lha_decoder_for_name((char *) methods[m]), *t2 = lha_decoder_for_name((char *) methods[(m + 1) % 3]);
						LHADecoder *d1, *d2;
						static uint8_t o1[4400], o2[4400];
						size_t l1 = 0, l2 = 0, g1, g2, h = (size_t) n / 2;
						VIN.p = data; VIN.n = (size_t) n; VIN.pos = 0; VIN.chunk = 0; VIN.calls = 0;
						VIN2.p = data + 7; VIN2.n = h; VIN2.pos = 0;
						d1 = lha_decoder_new(t1, vin_cb, &VIN, (size_t) n);
						d2 = lha_decoder_new(t2, vin2_cb, &VIN2, h);
						do {
							g1 = lha_decoder_read(d1, o1 + l1, 33 < sizeof o1 - l1 ? 33 : 0); l1 += g1;
							g2 = lha_decoder_read(d2, o2 + l2, 17 < sizeof o2 - l2 ? 17 : 0); l2 += g2;
						} while (g1 || g2);
						if (l1 != (size_t) n || memcmp(o1, data, l1) || l2 != h || memcmp(o2, data + 7, l2))
							vf_viol("decoder-instance-interference", "methods %s and %s: two live decoders disturb each other (%zu of %d and %zu of %zu bytes)", methods[m], methods[(m + 1) % 3], l1, n, l2, h);
						lha_decoder_free(d1); lha_decoder_free(d2);
					}
					free(out);
				}
				if (want > 0) vf_nontrivial(vf_mix(m, ((uint64_t) n << 20) | decl[k]));
			}
		}
	} else if (!strcmp(VF.space, "lz5-single") || !strcmp(VF.space, "lzs-single")) {
		int variant = VF.space[2] == '5' ? '5' : 's';
		const char *method = variant == '5' ? "-lz5-" : "-lzs-";
		unsigned R = variant == 's' ? 2048 : 4096, minlen = variant == 's' ? 2 : 3;
		unsigned pos, l, pre;
		/* every single copy from the initial state, after 0..7 literals (-lzs-: every bit alignment) */
		int maxpre = variant == 's' ? 7 : 1;
		for (pre = 0; pre <= (unsigned) maxpre; ++pre)
		for (pos = 0; pos < R; ++pos)
		for (l = 0; l < 16; ++l) {
			ref_cmd c[9];
			unsigned i;
			for (i = 0; i < pre; ++i) { c[i].copy = 0; c[i].value = 0x30 + i; c[i].len = 1; }
			c[pre].copy = 1; c[pre].value = pos; c[pre].len = l + minlen;
			if (vf_case("%s pre=%u copy pos=%u len=%u", method, pre, pos, l + minlen))
				check_cmds(method, variant, c, pre + 1, 1);
		}
	} else if (!strcmp(VF.space, "lz5-flags")) {
		unsigned f;
		for (f = 0; f < 256; ++f) {
			ref_cmd c[16];
			int i;
			/* two groups so that the second flag byte position depends on the first group's sizes */
			for (i = 0; i < 16; ++i) {
				int lit = i < 8 ? (f >> i) & 1 : ((f * 37 + 11) >> (i - 8)) & 1;
				c[i].copy = !lit;
				c[i].value = lit ? 0x61 + i : (unsigned) (i * 251 + 7) % 4096;
				c[i].len = lit ? 1 : 3 + (i * 5) % 16;
			}
			if (vf_case("-lz5- flags=%02x", f))
				check_cmds("-lz5-", '5', c, 16, 1);
		}
	} else if (!strcmp(VF.space, "lz5-seq")) {
		seq_space("-lz5-", '5', VF.thorough ? 5 : 4);
	} else if (!strcmp(VF.space, "lzs-seq")) {
		seq_space("-lzs-", 's', VF.thorough ? 5 : 4);
	} else if (!strcmp(VF.space, "lz5-wrap") || !strcmp(VF.space, "lzs-wrap")) {
		/* literal prefixes that carry the write position to and across the ring seam and once
		 * around the ring, then every copy from a boundary set */
		int variant = VF.space[2] == '5' ? '5' : 's';
		const char *method = variant == '5' ? "-lz5-" : "-lzs-";
		unsigned R = variant == 's' ? 2048 : 4096, so = variant == 's' ? 17 : 18;
		unsigned minlen = variant == 's' ? 2 : 3, maxlen = minlen + 15;
		unsigned pres[] = { so - 1, so, so + 1, R - 1, R, R + 1, R + so - 1, R + so, R + so + 1, 2 * R + 5 };
		static ref_cmd c[3 * 4096];
		unsigned pi, k, li;
		for (pi = 0; pi < sizeof pres / sizeof *pres; ++pi) {
			unsigned pre = pres[pi];
			unsigned w = (R - so + pre) % R;
			unsigned poss[] = { (w + R - 1) % R, w, (w + 1) % R, (w + R - maxlen) % R, (w + R - minlen) % R,
			                    0, 1, R - 1, R - 2, (R - so) % R, (R - so - 1) % R, (w + R / 2) % R };
			for (k = 0; k < pre; ++k) { c[k].copy = 0; c[k].value = (k * 31 + 5 + (k >> 8) * 13) & 0xFF; c[k].len = 1; }      /* no period of 256: slots 256 apart differ */
			for (k = 0; k < sizeof poss / sizeof *poss; ++k)
			for (li = 0; li < 16; ++li) {
				c[pre].copy = 1; c[pre].value = poss[k]; c[pre].len = minlen + li;
				c[pre + 1].copy = 1; c[pre + 1].value = (poss[k] + 3) % R; c[pre + 1].len = maxlen;
				if (vf_case("%s %u literals then C(%u,%u) C(%u,%u)", method, pre, poss[k], minlen + li, (poss[k] + 3) % R, maxlen))
					check_cmds(method, variant, c, pre + 2, 1);
			}
		}
	} else if (!strcmp(VF.space, "lz5-runs")) {
		/* -lz5- groups its commands in runs of eight under one flag byte.  A first run of one copy (3..18 bytes) and seven
		 * literals, then 0..2 runs of eight literals, put the start of the run under test at every write position from 8 before
		 * to 23 after the end of the ring; the run under test has one of 6 flag patterns; a copy then reads the ring around
		 * position 0 and around the run */
		static const uint8_t flags[6] = { 0xFF, 0x00, 0x0F, 0xF0, 0xAA, 0x55 };
		static ref_cmd c[64];
		unsigned L1, kr, fi, ci, mx;
		for (L1 = 3; L1 <= 18; ++L1)
		for (kr = 0; kr < 3; ++kr)
		for (fi = 0; fi < 6; ++fi)
		for (mx = 0; mx < 2; ++mx)                  /* mx: the copies of the run have the maximal length (a run of eight gives 144 bytes) */
		for (ci = 0; ci < 6; ++ci) {
			static const unsigned reads[6] = { 0, 1, 4095, 4094, 7, 4089 };
			int n = 0, b;
			unsigned v = 0x30;
			if (!vf_case("-lz5- copy of %u + 7 literals, %u runs of 8 literals, a run with flags %02x (%s copies), then a copy from ring position %u", L1, kr, flags[fi], mx ? "18-byte" : "short", reads[ci])) continue;
			c[n].copy = 1; c[n].value = 100; c[n].len = L1; ++n;
			for (b = 0; b < 7 + 8 * (int) kr; ++b) { c[n].copy = 0; c[n].value = v++ & 0xFF; c[n].len = 1; ++n; }
			for (b = 0; b < 8; ++b) {
				if (flags[fi] & (1u << b)) { c[n].copy = 0; c[n].value = (0xC0 + b) & 0xFF; c[n].len = 1; }
				else { c[n].copy = 1; c[n].value = (4070 + 3 * (unsigned) b) % 4096; c[n].len = mx ? 18 : 3 + (unsigned) b % 4; }
				++n;
			}
			c[n].copy = 1; c[n].value = reads[ci]; c[n].len = 9; ++n;
			c[n].copy = 0; c[n].value = 0x7E; c[n].len = 1; ++n;
			check_cmds("-lz5-", '5', c, n, 1);
		}
	} else {
		fprintf(stderr, "unknown space %s\n", VF.space);
		return 2;
	}
	vf_done();
	return 0;
}
