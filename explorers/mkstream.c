/* prints reference-compressed blobs for the Python archive builder: args: method target seed ... (triples);
 * output per triple: "<method> <plain hex> <stream hex>" */
#include <stdio.h>
#include <stdlib.h>
#include "streams.h"
int main(int argc, char **argv)
{
	static uint8_t out[1 << 20], plain[1 << 20];
	int i;
	for (i = 1; i + 2 < argc; i += 3) {
		size_t el = 0, n = make_stream(argv[i], (size_t) atol(argv[i + 1]), (unsigned) atoi(argv[i + 2]), out, sizeof out, plain, sizeof plain, &el), k;
		printf("%s ", argv[i]);
		for (k = 0; k < el; ++k) printf("%02x", plain[k]);
		printf(" ");
		for (k = 0; k < n; ++k) printf("%02x", out[k]);
		printf("\n");
	}
	return 0;
}
