/* count distinct 64-bit values over a list of binary files (one path per line in argv[1]) */
#include <stdio.h>
#include <stdlib.h>
#include <stdint.h>
#include <string.h>
static int cmp(const void *a, const void *b)
{
	uint64_t x = *(const uint64_t *) a, y = *(const uint64_t *) b;
	return x < y ? -1 : x > y;
}
int main(int argc, char **argv)
{
	FILE *l = fopen(argv[1], "r");
	char path[2048];
	uint64_t *v = NULL;
	size_t n = 0, cap = 0, i, d = 0;
	if (!l) return 2;
	while (fgets(path, sizeof path, l)) {
		FILE *f;
		long sz;
		path[strcspn(path, "\n")] = 0;
		f = fopen(path, "rb");
		if (!f) continue;
		fseek(f, 0, SEEK_END); sz = ftell(f); fseek(f, 0, SEEK_SET);
		if (n + sz / 8 > cap) { cap = (n + sz / 8) * 2 + 1024; v = realloc(v, cap * 8); }
		n += fread(v + n, 8, sz / 8, f);
		fclose(f);
	}
	qsort(v, n, 8, cmp);
	for (i = 0; i < n; ++i) if (i == 0 || v[i] != v[i - 1]) ++d;
	printf("%zu\n", d);
	return 0;
}
