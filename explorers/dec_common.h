/* helpers shared by the decoder explorers (E1) */
#ifndef DEC_COMMON_H
#define DEC_COMMON_H
#include "common.h"
#ifndef VF_NO_INTERNALS
#include "lib/lha_decoder.h" /* lib/lha_decoder.h: struct layout, only used for state hashing (counting distinct states, never a verdict) */
#else
/* the build falls back to this when the library's private header no longer has the layout assumed below: the public interface
 * is all the oracles need; explored states are then told apart by their output only */
#include "lha_decoder.h"
#endif
#include "ref_lz.h"
#include "ref_crc16.h"
#include "streams.h"
#include <sys/personality.h>

/* input source owned by the harness; static so that its address is the same in every case */
typedef struct {
	const uint8_t *p;
	size_t n, pos;
	int chunk;            /* 0: give what is asked; k>0: at most k bytes per call */
	size_t calls, zero_calls;
} vin_t;
static vin_t VIN;

static size_t vin_cb(void *buf, size_t len, void *u)
{
	vin_t *v = (vin_t *) u;
	size_t k = v->n - v->pos;
	++v->calls;
	if (k > len) k = len;
	if (v->chunk > 0 && k > (size_t) v->chunk) k = (size_t) v->chunk;
	if (v->chunk < 0) {
		/* irregular pieces: short answers followed by longer ones */
		static const uint8_t pat[3][4] = { { 1, 4, 1, 4 }, { 3, 1, 4, 2 }, { 2, 5, 1, 7 } };
		size_t lim = pat[(-v->chunk - 1) % 3][(v->calls - 1) & 3];
		if (k > lim) k = lim;
	}
	if (k == 0) { ++v->zero_calls; return 0; }
	memcpy(buf, v->p + v->pos, k);
	v->pos += k;
	return k;
}

/* re-exec once with address-space randomisation off so that code/data pointers embedded in decoder
 * state hash identically in every shard */
static void dec_no_aslr(char **argv)
{
	int p = personality(0xffffffff);
	if (p != -1 && !(p & ADDR_NO_RANDOMIZE) && !getenv("VF_NOASLR_DONE")) {
		if (personality(p | ADDR_NO_RANDOMIZE) != -1) {
			setenv("VF_NOASLR_DONE", "1", 1);
			execv("/proc/self/exe", argv);
		}
	}
}

#ifdef VF_NO_INTERNALS
static uint64_t dec_state_hash(LHADecoder *d, uint64_t outhash)
{
	return vf_mix(outhash, lha_decoder_get_length(d));
}
#else
static uint64_t dec_state_hash(LHADecoder *d, uint64_t outhash)
{
	size_t es = d->dtype->extra_size;
	const uint8_t *x = (const uint8_t *) (d + 1);
	uint64_t h = vf_mix(outhash, (uint64_t) (uintptr_t) d->dtype);
	h = vf_mix(h, d->stream_pos);
	h = vf_mix(h, ((uint64_t) d->outbuf_pos << 32) | d->outbuf_len);
	h = vf_mix(h, d->decoder_failed);
	h = vf_mix(h, d->crc);
	if (es <= 24576) {
		h = vf_hash(x, es, h);
	} else {
		/* large rings: strided sample of the private area (the output hash already covers its contents) */
		size_t i;
		for (i = 0; i + 8 <= es; i += 8 * 67) {
			uint64_t v;
			memcpy(&v, x + i, 8);
			h = vf_mix(h, v);
		}
	}
	return h;
}
#endif

typedef struct {
	size_t len;          /* bytes returned in total */
	uint16_t crc;
	size_t getlen;
	int created;
	size_t reads;
} dec_result;

/* Decode a whole stream through the public decoder API.  readsz==0: one read of 'declared'+1 bytes
 * followed by reads until 0.  Checks "no read returns more than asked".  out must hold declared+readsz+1. */
static size_t dec_run(const char *method, const uint8_t *in, size_t n, size_t declared,
                      uint8_t *out, size_t readsz, int chunk, dec_result *res)
{
	LHADecoderType *t = lha_decoder_for_name((char *) method);
	LHADecoder *d;
	size_t total = 0;
	uint64_t oh = 0;
	memset(res, 0, sizeof *res);
	if (t == NULL) return 0;
	VIN.p = in; VIN.n = n; VIN.pos = 0; VIN.chunk = chunk; VIN.calls = VIN.zero_calls = 0;
	d = lha_decoder_new(t, vin_cb, &VIN, declared);
	if (d == NULL) return 0;
	res->created = 1;
	for (;;) {
		size_t ask = readsz ? readsz : declared + 1;
		size_t got = lha_decoder_read(d, out + total, ask);
		++res->reads;
		if (got > ask) {
			vf_viol("read-overlong", "method=%s read(%zu) returned %zu", method, ask, got);
			break;
		}
		oh = vf_hash(out + total, got, oh);
		total += got;
		vf_step(dec_state_hash(d, oh));
		if (got == 0) break;
		if (total > declared) break;
	}
	res->len = total;
	res->crc = lha_decoder_get_crc(d);
	res->getlen = lha_decoder_get_length(d);
	lha_decoder_free(d);
	return total;
}

static uint8_t *DEC_OUT;
static size_t DEC_OUT_CAP;
static uint8_t *dec_outbuf(size_t need)
{
	if (need > DEC_OUT_CAP) {
		free(DEC_OUT);
		DEC_OUT_CAP = need * 2 + 4096;
		DEC_OUT = malloc(DEC_OUT_CAP);
	}
	return DEC_OUT;
}

/* optional dump of the valid streams (input of the C09 substitution space): VF_DUMP=<file>, every VF_DUMP_STRIDE-th stream */
static void dec_dump(const char *method, const uint8_t *in, size_t n)
{
	static FILE *f;
	static int init, stride = 1;
	static long count;
	size_t i;
	if (!init) {
		const char *p = getenv("VF_DUMP");
		init = 1;
		if (p) f = fopen(p, "a");
		if (getenv("VF_DUMP_STRIDE")) stride = atoi(getenv("VF_DUMP_STRIDE"));
		if (stride < 1) stride = 1;
	}
	if (!f || n == 0 || n > 80 || (count++ % stride) != 0) return;
	fprintf(f, "%s ", method);
	for (i = 0; i < n; ++i) fprintf(f, "%02x", in[i]);
	fprintf(f, "\n");
}

/* A second decoder of the same method (fed the same stream, offset in time) is kept alive and read in between on every
 * 4th case: decoder instances must not share state. */
static vin_t VIN2;
static size_t vin2_cb(void *buf, size_t len, void *u)
{
	vin_t *v = (vin_t *) u;
	size_t k = v->n - v->pos;
	if (k > len) k = len;
	memcpy(buf, v->p + v->pos, k);
	v->pos += k;
	return k;
}

/* A long valid stream of the same method decoded to the end in this process before the case's own stream (every 4th case,
 * and always when a single case is replayed): nothing may be carried from one decoder's life into the next. */
static void dec_pollute(const char *method)
{
	static struct { const char *m; uint8_t *in; size_t n, elen; } P[14];
	static uint8_t *exp, *out;
	int i;
	LHADecoderType *dt;
	LHADecoder *d;
	for (i = 0; i < 14 && P[i].m && strcmp(P[i].m, method); ++i);
	if (i == 14) return;
	if (!exp) { exp = malloc(1 << 15); out = malloc((1 << 15) + 8); }
	if (!P[i].m) {
		uint8_t *buf = malloc(1 << 16);
		P[i].m = method;
		P[i].n = make_stream(method, 9000, 3, buf, 1 << 16, exp, 1 << 15, &P[i].elen);
		P[i].in = buf;
	}
	if (!P[i].n) return;
	dt = lha_decoder_for_name((char *) method);
	if (!dt) return;
	VIN.p = P[i].in; VIN.n = P[i].n; VIN.pos = 0; VIN.chunk = 0; VIN.calls = 0;
	d = lha_decoder_new(dt, vin_cb, &VIN, P[i].elen);
	if (!d) return;
	{
		size_t tot = 0, g;
		while (tot <= P[i].elen && (g = lha_decoder_read(d, out + tot, P[i].elen + 1 - tot)) > 0) tot += g;
	}
	lha_decoder_free(d);
}

static size_t dec_nest_cb(void *buf, size_t len, void *u)
{
	return lha_decoder_read((LHADecoder *) u, (uint8_t *) buf, len);
}

/* decode 'in' with declared length = elen and require exactly 'exp'.  Returns 1 when equal. */
static int dec_expect(const char *site, const char *method, const uint8_t *in, size_t n,
                      const uint8_t *exp, size_t elen, int chunk)
{
	dec_result r;
	/* exact-size heap buffer so that the sanitizer sees any write past the declared length */
	uint8_t *out = malloc(elen + 2);
	size_t got;
	dec_dump(method, in, n);
	if ((VF.index & 3) == 2 || VF.only >= 0) dec_pollute(method);
	if ((VF.index & 3) == 0 && elen > 1) {
		LHADecoderType *dt = lha_decoder_for_name((char *) method);
		LHADecoder *d1, *d2;
		uint8_t o2[64];
		size_t want2 = elen < sizeof o2 ? elen : sizeof o2, l2 = 0, g, tot = 0;
		VIN.p = in; VIN.n = n; VIN.pos = 0; VIN.chunk = 0;
		VIN2.p = in; VIN2.n = n; VIN2.pos = 0;
		d1 = lha_decoder_new(dt, vin_cb, &VIN, elen);
		d2 = lha_decoder_new(dt, vin2_cb, &VIN2, want2);
		if (d1 && d2) {
			/* the first decoder runs ahead by a few bytes, then both alternate */
			tot += lha_decoder_read(d1, out, elen > 3 ? 3 : 1);
			for (;;) {
				if (l2 < want2) l2 += lha_decoder_read(d2, o2 + l2, 5 < want2 - l2 ? 5 : want2 - l2);
				g = lha_decoder_read(d1, out + tot, 61 < elen + 1 - tot ? 61 : elen + 1 - tot);
				tot += g;
				if (g == 0 || tot > elen) break;
			}
			while (l2 < want2) { g = lha_decoder_read(d2, o2 + l2, want2 - l2); if (!g) break; l2 += g; }
			if (tot != elen || memcmp(out, exp, elen) || l2 != want2 || memcmp(o2, exp, want2))
				vf_viol("decoder-instance-interference", "method=%s in=%s: two live decoders of the same method disturb each other (%zu of %zu and %zu of %zu bytes correct in length)", method, vf_hex(in, n), tot, elen, l2, want2);
		}
		if (d1) lha_decoder_free(d1);
		if (d2) lha_decoder_free(d2);
	}
	/* input delivered in pieces of 1..3 bytes: a legal answer of the input callback for the bit-reader decoders */
	if ((VF.index & 3) == 1 && elen > 0 && strcmp(method, "-lz5-") && strcmp(method, "-lh0-") && strcmp(method, "-lz4-") && strcmp(method, "-pm0-")) {
		dec_result rc;
		int sel = (int) ((VF.index >> 2) % 6), ck = sel < 3 ? 1 + sel : -(sel - 2);
		size_t gc = dec_run(method, in, n, elen, out, 0, ck, &rc);
		if (gc != elen || memcmp(out, exp, elen))
			vf_viol("decoder-input-chunking", "method=%s in=%s: output differs when the input callback delivers its bytes in pieces (mode %d: at most k bytes, or irregular pattern -k) (%zu of %zu bytes)", method, vf_hex(in, n), ck, gc, elen);
	}
	/* the same stream followed by four more bytes (0xFF or 0x00): with the declared length equal to what the commands denote,
	 * decoding stops there and the result is the same */
	if ((VF.index % 5) == 0 && n + 4 <= 70000 && elen > 0 && strcmp(method, "-lh0-") && strcmp(method, "-lz4-") && strcmp(method, "-pm0-")) {
		static uint8_t ext[70004];
		dec_result rt;
		size_t gt;
		memcpy(ext, in, n);
		memset(ext + n, (VF.index % 10) == 0 ? 0xFF : 0x00, 4);
		gt = dec_run(method, ext, n + 4, elen, out, 0, 0, &rt);
		if (gt != elen || memcmp(out, exp, elen))
			vf_viol("decoder-trailing-bytes", "method=%s in=%s: output differs when four %s bytes follow the stream (%zu of %zu bytes)", method, vf_hex(in, n), (VF.index % 10) == 0 ? "0xFF" : "0x00", gt, elen);
	}
	/* decoders chained: the stream reaches the decoder under test through another decoder OF THE SAME METHOD (a literal-only
	 * stream that holds the stream's bytes), whose read function is called from inside the input callback with the caller's
	 * buffer: nothing in a decoder's code may be shared between two decoders, however their calls nest */
	if ((VF.index % 7) == 3 && n > 0 && n <= 4000 && elen > 0) {
		static uint8_t inner_stream[40000];
		size_t il = literal_stream(method, in, n, inner_stream, sizeof inner_stream);
		LHADecoderType *dt = lha_decoder_for_name((char *) method);
		if (il && dt) {
			LHADecoder *inner, *outer;
			size_t tot = 0, g;
			VIN2.p = inner_stream; VIN2.n = il; VIN2.pos = 0;
			inner = lha_decoder_new(dt, vin2_cb, &VIN2, n);
			outer = inner ? lha_decoder_new(dt, dec_nest_cb, inner, elen) : NULL;
			if (outer) {
				while (tot <= elen && (g = lha_decoder_read(outer, out + tot, elen + 1 - tot)) > 0) tot += g;
				if (tot != elen || memcmp(out, exp, elen))
					vf_viol("decoder-chained", "method=%s in=%s: output differs when the input comes through another decoder of the same method called from the input callback (%zu of %zu bytes)", method, vf_hex(in, n), tot, elen);
				lha_decoder_free(outer);
			}
			if (inner) lha_decoder_free(inner);
		}
	}
	/* a caller that probes with zero-length requests (before the first byte and between its reads of 1, 7 and 61 bytes) */
	if ((VF.index & 3) == 3 && elen > 0) {
		LHADecoderType *dt = lha_decoder_for_name((char *) method);
		LHADecoder *d;
		size_t tot = 0, g, step = 0;
		static const size_t asks[6] = { 0, 1, 0, 7, 0, 61 };
		VIN.p = in; VIN.n = n; VIN.pos = 0; VIN.chunk = 0; VIN.calls = VIN.zero_calls = 0;
		d = dt ? lha_decoder_new(dt, vin_cb, &VIN, elen) : NULL;
		if (d) {
			for (;;) {
				size_t ask = asks[step++ % 6];
				if (ask > elen + 1 - tot) ask = elen + 1 - tot;
				g = lha_decoder_read(d, out + tot, ask);
				if (g > ask) { vf_viol("read-overlong", "method=%s read(%zu) returned %zu", method, ask, g); break; }
				tot += g;
				if ((ask > 0 && g == 0) || tot > elen || step > 8 * elen + 64) break;
			}
			if (tot != elen || memcmp(out, exp, elen))
				vf_viol("decoder-zero-length-read", "method=%s in=%s: output differs when zero-length requests are interleaved with the reads (%zu of %zu bytes)", method, vf_hex(in, n), tot, elen);
			lha_decoder_free(d);
		}
	}
	got = dec_run(method, in, n, elen, out, 0, chunk, &r);
	int ok = 1;
	if (!r.created) {
		vf_viol(site, "method=%s decoder could not be created", method);
		ok = 0;
	} else if (got != elen || memcmp(out, exp, elen) != 0) {
		size_t i, m = got < elen ? got : elen;
		for (i = 0; i < m && out[i] == exp[i]; ++i);
		vf_viol(site, "method=%s in=%s expected %zu bytes got %zu, first difference at %zu (exp %02x got %02x)",
		        method, vf_hex(in, n), elen, got, i, i < elen ? exp[i] : 0, i < got ? out[i] : 0);
		ok = 0;
	} else if (r.getlen != elen || r.crc != ref_crc16(0, exp, elen)) {
		vf_viol("decoder-crc-length", "method=%s get_length=%zu get_crc=%04x expected %zu/%04x",
		        method, r.getlen, r.crc, elen, ref_crc16(0, exp, elen));
		ok = 0;
	}
	vf_outcome(vf_hash(out, got, (uint64_t) (uintptr_t) method[3] * 131 + method[2]));
	free(out);
	return ok;
}

static const char *cmds_str(const ref_cmd *c, int n)
{
	static char buf[2048];
	int i, o = 0;
	buf[0] = 0;
	for (i = 0; i < n && o < 1900; ++i) {
		if (c[i].copy) o += snprintf(buf + o, sizeof buf - o, "C(%u,%u) ", c[i].value, c[i].len);
		else o += snprintf(buf + o, sizeof buf - o, "L%02x ", c[i].value);
	}
	return buf;
}
#endif
