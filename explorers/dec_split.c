/* E1 / C14: decoder reads are split-invariant, stop exactly at the declared length, report faithful
 * length/CRC, and drive the progress monitor 0..T. */
#include "dec_common.h"
#include "streams.h"

#define CAP (3u << 20)
static uint8_t *SBUF, *EBUF, *BASE, *OUT;

typedef struct {
	unsigned calls;
	unsigned seq_ok;        /* calls arrived as 0,1,2,... */
	unsigned last;
	unsigned total;
	int total_changed;
} mon_t;
static mon_t MON;

static void mon_cb(unsigned int num, unsigned int total, void *u)
{
	mon_t *m = (mon_t *) u;
	if (m->calls == 0) m->total = total;
	else if (m->total != total) m->total_changed = 1;
	if (num == m->calls) ++m->seq_ok;
	m->last = num;
	++m->calls;
}

typedef struct {
	size_t len;
	uint16_t crc;
	int crc_len_ok;       /* accessors matched after every read */
	int overlong;
	mon_t mon;
	uint64_t obs;         /* hash of everything observable */
} run_t;

/* a caller may also stop asking as soon as it has received the declared number of bytes (no trailing read that returns 0) */
static int STOP_AT_DECLARED;
/* a second decoder (stored data, another declared length and so another block total) lives next to the one under test; a
 * monitor is attached to it after the first read of the decoder under test and it is read once in between */
static int BYSTANDER;
static mon_t MON2;
static const uint8_t BY_DATA[64] = { 1, 2, 3 };
static vin_t VINB;
static size_t BLOCK;

/* one run: schedule = list of sizes used cyclically; monitor attached after 'attach' reads (-1: never) */
static void run_schedule(const char *method, const uint8_t *in, size_t n, size_t declared,
                         const size_t *sched, int nsched, int attach, int poison, run_t *r)
{
	LHADecoderType *t = lha_decoder_for_name((char *) method);
	LHADecoder *d;
	size_t total = 0;
	int reads = 0, zero_streak = 0;
	uint16_t crc = 0;
	memset(r, 0, sizeof *r);
	memset(&MON, 0, sizeof MON);
	r->crc_len_ok = 1;
	VIN.p = in; VIN.n = n; VIN.pos = 0; VIN.chunk = 0; VIN.calls = VIN.zero_calls = 0;
	d = lha_decoder_new(t, vin_cb, &VIN, declared);
	if (!d) { r->obs = 1; return; }
	LHADecoder *by = NULL;
	if (BYSTANDER) {
		VINB.p = BY_DATA; VINB.n = sizeof BY_DATA; VINB.pos = 0; VINB.chunk = 0;
		by = lha_decoder_new(lha_decoder_for_name("-lh0-"), vin_cb, &VINB, 50000);
		memset(&MON2, 0, sizeof MON2);
	}
	for (;;) {
		size_t ask = sched[reads % nsched], got;
		if (by && reads == 1) { uint8_t tmp[8]; lha_decoder_monitor(by, mon_cb, &MON2); (void) lha_decoder_read(by, tmp, sizeof tmp); }
		if (attach == reads) lha_decoder_monitor(d, mon_cb, &MON);
		if (poison) vf_poison_stack(poison);
		got = lha_decoder_read(d, OUT + total, ask);
		++reads;
		if (got > ask) { r->overlong = 1; break; }
		crc = ref_crc16(crc, OUT + total, got);
		total += got;
		if (lha_decoder_get_length(d) != total || lha_decoder_get_crc(d) != crc) r->crc_len_ok = 0;
		vf_step(dec_state_hash(d, vf_mix(crc, total)));
		if (got == 0 && ask > 0) break;
		if (got == 0) { if (++zero_streak > nsched) break; } else zero_streak = 0;
		if (total > declared) break;
		if (STOP_AT_DECLARED && total == declared) break;
		if (reads > 4000000) break;
	}
	if (attach >= reads) lha_decoder_monitor(d, mon_cb, &MON);     /* attach after the last read */
	r->len = total;
	r->crc = crc;
	r->mon = MON;
	r->obs = vf_mix(vf_hash(OUT, total, crc), total);
	if (by) lha_decoder_free(by);
	lha_decoder_free(d);
}

typedef struct { uint8_t *s; size_t n; size_t elen; int valid; char what[48]; } stream_t;

static void check_run(const char *method, const stream_t *st, size_t declared, const run_t *base,
                      const run_t *r, const char *sdesc, int attach)
{
	if (r->overlong) vf_viol("read-overlong", "%s %s declared=%zu sched=%s", method, st->what, declared, sdesc);
	if (r->len != base->len || memcmp(OUT, BASE, r->len))
		vf_viol("split-variance", "%s %s declared=%zu sched=%s: %zu bytes vs %zu from one maximal read (or differing content)",
		        method, st->what, declared, sdesc, r->len, base->len);
	if (r->len > declared) vf_viol("declared-exceeded", "%s %s declared=%zu got %zu", method, st->what, declared, r->len);
	if (!r->crc_len_ok) vf_viol("crc-length-accessor", "%s %s declared=%zu sched=%s: get_length/get_crc disagree with the bytes returned", method, st->what, declared, sdesc);
	if (attach >= 0) {
		const mon_t *m = &r->mon;
		if (m->calls == 0 || m->seq_ok != m->calls || m->total_changed)
			vf_viol("monitor-sequence", "%s %s declared=%zu sched=%s attach=%d: %u calls, %u in order, total changed=%d",
			        method, st->what, declared, sdesc, attach, m->calls, m->seq_ok, m->total_changed);
		else if (r->len == declared && m->last != m->total)
			vf_viol("monitor-incomplete", "%s %s declared=%zu sched=%s attach=%d: stream complete but last call %u of %u",
			        method, st->what, declared, sdesc, attach, m->last, m->total);
		else if (m->last > m->total)
			vf_viol("monitor-overrun", "%s %s: call %u beyond total %u", method, st->what, m->last, m->total);
	}
}

static const char *sched_str(const size_t *s, int n)
{
	static char b[256];
	int i, o = 0;
	b[0] = 0;
	for (i = 0; i < n && o < 230; ++i) o += snprintf(b + o, sizeof b - o, "%zu,", s[i]);
	return b;
}

static void explore_stream(const char *method, const stream_t *st, int depth, int poison_only)
{
	size_t E = st->elen;
	/* the last three: 2^32 and beyond (the declared length is a size_t); -pm1- is endless by specification and is left out */
	size_t decls[13] = { 0, 1, E ? E - 1 : 0, E, E + 1, 4 * E, (size_t) 1 << 32, ((size_t) 1 << 32) + (E > 2 ? E / 2 : 1), ((size_t) 1 << 33) + 7,
	                     /* declared lengths that end just past a progress-block boundary, inside what one decoding step produces */
	                     BLOCK + 1, BLOCK + 100, 2 * BLOCK + 100, 2 * BLOCK + 1 };
	int di, ndecl = sizeof(size_t) > 4 && strcmp(method, "-pm1-") && E < 100000 ? 9 : 6;
	for (di = 0; di < 13; ++di) {
		size_t declared = decls[di];
		if (di >= ndecl && di < 9) continue;
		if (di >= 9 && (!BLOCK || declared >= E)) continue;
		run_t base, r;
		size_t one[1];
		size_t want;
		if (di > 0 && declared == decls[di - 1]) continue;
		/* baseline: one maximal read */
		one[0] = declared + 1;
		run_schedule(method, st->s, st->n, declared, one, 1, -1, 0, &base);
		memcpy(BASE, OUT, base.len);
		want = declared < E ? declared : E;
		/* -pm1- is specified to continue with zero bits past its data: beyond the encoded length nothing is predicted here */
		/* beyond the encoded length only the padding bits remain: what they decode to is not specified, the first E bytes are */
		if (st->valid && ((declared <= E ? base.len != want : base.len < want) || memcmp(BASE, EBUF, want))) {
			if (vf_case("%s %s declared=%zu maximal read", method, st->what, declared))
				vf_viol("declared-length", "%s %s declared=%zu: maximal read gave %zu bytes, the stream holds %zu", method, st->what, declared, base.len, want);
			continue;
		}
		if (poison_only) {
			/* observable must not depend on dead stack contents: two patterns, identical observations */
			run_t a, b;
			if (!vf_case("%s %s declared=%zu stack patterns", method, st->what, declared)) continue;
			one[0] = 7;
			run_schedule(method, st->s, st->n, declared, one, 1, -1, 0x5A, &a);
			memcpy(BASE, OUT, a.len);
			run_schedule(method, st->s, st->n, declared, one, 1, -1, 0xC3, &b);
			if (a.len != b.len || memcmp(BASE, OUT, a.len))
				vf_viol("uninitialised-dependence", "%s %s declared=%zu: output depends on dead stack contents (%zu vs %zu bytes)", method, st->what, declared, a.len, b.len);
			one[0] = declared + 1;
			run_schedule(method, st->s, st->n, declared, one, 1, -1, 0xC3, &b);
			if (a.len != b.len || memcmp(BASE, OUT, a.len))
				vf_viol("uninitialised-dependence", "%s %s declared=%zu: output depends on dead stack contents and read size (%zu vs %zu bytes)", method, st->what, declared, a.len, b.len);
			vf_outcome(a.obs);
			vf_nontrivial(vf_mix(vf_hash(st->s, st->n, declared), 77));
			continue;
		}
		if (base.len <= 10) {
			/* every composition of the delivered length, each also with zero-length reads interleaved, monitor at every k */
			unsigned L = (unsigned) base.len, mask, z;
			int attach;
			for (mask = 0; mask < (L ? 1u << (L - 1) : 1); ++mask)
			for (z = 0; z < 2; ++z) {
				size_t sc[40];
				int ns = 0;
				unsigned i, run = 1;
				for (i = 0; i + 1 < L; ++i) {
					if (mask & (1u << i)) { if (z) sc[ns++] = 0; sc[ns++] = run; run = 1; } else ++run;
				}
				if (L) { if (z) sc[ns++] = 0; sc[ns++] = run; }
				sc[ns++] = 5;      /* the read that meets the end */
				for (attach = -1; attach <= ns; ++attach) {
					if (!vf_case("%s %s declared=%zu composition=%s attach=%d", method, st->what, declared, sched_str(sc, ns), attach)) continue;
					run_schedule(method, st->s, st->n, declared, sc, ns, attach, 0, &r);
					check_run(method, st, declared, &base, &r, sched_str(sc, ns), attach);
					if (attach == 0 && ns > 1) {
						BYSTANDER = 1;
						run_schedule(method, st->s, st->n, declared, sc, ns, attach, 0, &r);
						BYSTANDER = 0;
						check_run(method, st, declared, &base, &r, "(the same, with a second monitored decoder alive)", attach);
					}
					if (attach >= 0 && attach < ns && base.len == declared && declared > 0) {
						STOP_AT_DECLARED = 1;
						run_schedule(method, st->s, st->n, declared, sc, ns, attach, 0, &r);
						STOP_AT_DECLARED = 0;
						check_run(method, st, declared, &base, &r, "(the same, caller stops at the declared length)", attach);
					}
					vf_outcome(vf_mix(r.obs, r.mon.calls));
					if (L > 1) vf_nontrivial(vf_mix(vf_hash(st->s, st->n, declared), ((uint64_t) mask << 8) | (z << 7) | (attach + 1)));
				}
			}
		} else {
			size_t menu[10] = { 0, 1, 2, 7, 64, 4096, declared + 1, BLOCK ? BLOCK - 1 : 3, BLOCK ? BLOCK : 5, BLOCK + 1 };   /* BLOCK: the decoder's own output block */
			int nmenu = base.len > BLOCK && BLOCK ? 10 : 7;
			int len, idx[4], i, attach;
			int maxlen = base.len > 20000 ? 1 : depth;
			static const int attaches[5] = { -1, 0, 1, 2, 1000000 };
			for (len = 1; len <= maxlen; ++len) {
				memset(idx, 0, sizeof idx);
				for (;;) {
					size_t sc[4];
					size_t sum = 0;
					for (i = 0; i < len; ++i) { sc[i] = menu[idx[i]]; sum += sc[i]; }
					/* long outputs: skip schedules that would need more than ~50k reads */
					if (sum > 0 && base.len / sum * len < 50000) {
						for (attach = 0; attach < 5; ++attach) {
							if (len > 1 && attach > 1 && attach < 4) continue;
							if (!vf_case("%s %s declared=%zu sched=%s attach=%d", method, st->what, declared, sched_str(sc, len), attaches[attach])) continue;
							run_schedule(method, st->s, st->n, declared, sc, len, attaches[attach], 0, &r);
							check_run(method, st, declared, &base, &r, sched_str(sc, len), attaches[attach]);
							if (attach == 1) {
								BYSTANDER = 1;
								run_schedule(method, st->s, st->n, declared, sc, len, attaches[attach], 0, &r);
								BYSTANDER = 0;
								check_run(method, st, declared, &base, &r, "(the same, with a second monitored decoder alive)", attaches[attach]);
							}
							if (attach > 0 && attach < 4 && base.len == declared) {
								STOP_AT_DECLARED = 1;
								run_schedule(method, st->s, st->n, declared, sc, len, attaches[attach], 0, &r);
								STOP_AT_DECLARED = 0;
								check_run(method, st, declared, &base, &r, "(the same, caller stops at the declared length)", attaches[attach]);
							}
							vf_outcome(vf_mix(r.obs, r.mon.calls));
							vf_nontrivial(vf_mix(vf_hash(st->s, st->n, declared), vf_hash(sc, sizeof(size_t) * len, attach)));
						}
					}
					for (i = len - 1; i >= 0; --i) { if (++idx[i] < nmenu) break; idx[i] = 0; }
					if (i < 0) break;
				}
			}
		}
	}
}

int main(int argc, char **argv)
{
	const char *method;
	int depth, poison, longs;
	stream_t st;
	size_t targets[4] = { 6, 9, 700, 0 };
	int ti;
	LHADecoderType *t;
	dec_no_aslr(argv);
	vf_init(argc, argv);
	SBUF = malloc(CAP); EBUF = malloc(CAP); BASE = malloc(CAP * 2); OUT = malloc(CAP * 2);
	method = vf_extra("method", "-lh5-");
	depth = atoi(vf_extra("depth", "2"));
	poison = atoi(vf_extra("poison", "0"));
	longs = atoi(vf_extra("long", "1"));
	t = lha_decoder_for_name((char *) method);
	if (!t) return 2;
	/* long stream: 2.5 progress blocks */
#ifndef VF_NO_INTERNALS
	BLOCK = t->block_size;
#else
	BLOCK = 4096;
#endif
	targets[3] = longs ? BLOCK * 5 / 2 + 3 : 0;
	for (ti = 0; ti < 4; ++ti) {
		size_t elen = 0, n, cut;
		if (targets[ti] == 0) continue;
		n = make_stream(method, targets[ti], 3 + ti, SBUF, CAP, EBUF, CAP, &elen);
		if (n == 0 || elen == 0) { printf("HARNESS cannot build stream %s target %zu\n", method, targets[ti]); continue; }
		{
			int err = 0;
			long rl = ref_decode(method, SBUF, n, elen, BASE, &err);
			if (err || (size_t) rl != elen || memcmp(BASE, EBUF, elen)) {
				printf("HARNESS reference decoder disagrees with the serialiser for %s target %zu (err=%d %ld/%zu)\n", method, targets[ti], err, rl, elen);
				continue;
			}
		}
		st.s = SBUF; st.n = n; st.elen = elen; st.valid = 1;
		snprintf(st.what, sizeof st.what, "valid stream of %zu bytes (output %zu)", n, elen);
		explore_stream(method, &st, depth, poison);
		if (ti <= 2) {
			/* invalid variants: truncated at every byte (tiny streams) or at a few points, one corrupted byte */
			static uint8_t tmp[1 << 16];
			for (cut = 0; cut < n; cut += (ti < 2 ? 1 : n / 5 + 1)) {
				memcpy(tmp, SBUF, cut);
				st.s = tmp; st.n = cut; st.valid = 0;
				snprintf(st.what, sizeof st.what, "stream of %zu cut at %zu (full output %zu)", n, cut, elen);
				explore_stream(method, &st, depth > 1 && ti == 2 ? depth - 1 : depth, poison);
			}
			memcpy(tmp, SBUF, n);
			tmp[n / 2] ^= 0x5A;
			st.s = tmp; st.n = n; st.valid = 0;
			snprintf(st.what, sizeof st.what, "stream of %zu with byte %zu corrupted", n, n / 2);
			explore_stream(method, &st, depth, poison);
		}
	}
	vf_done();
	return 0;
}
