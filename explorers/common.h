/* Shared shell of the explorers: sharding, case descriptors in a shared page (so that a crash can be
 * attributed to a case), counters, hash sets for distinct states / outcomes / non-trivial cases,
 * the deviation-bounded choice enumerator.  Header-only. */
#ifndef VF_COMMON_H
#define VF_COMMON_H

#include <stdio.h>
#include <stdlib.h>
#include <string.h>
#include <stdint.h>
#include <stdarg.h>
#include <time.h>
#include <unistd.h>
#include <fcntl.h>
#include <sys/mman.h>
#include <sys/time.h>

typedef struct {
	int shard_i, shard_n;
	long long only, resume, upto;
	double deadline;          /* absolute, seconds since epoch; 0 = none */
	const char *space;        /* which space to run (explorers hold several) */
	const char *curfile;      /* shared page for the current case */
	const char *hashprefix;   /* where to dump the hash sets */
	int thorough;
	int verbose;
	int cpu_limit;            /* per-case CPU seconds (ITIMER_VIRTUAL -> SIGVTALRM kills the worker) */
	/* runtime */
	long long index;          /* index of the last case handed out by vf_case */
	long long evaluations;    /* cases run by this shard */
	long long transitions;
	long long violations;
	int stop;                 /* deadline hit */
	int samples;
	char *cur;                /* mmap of curfile */
	char desc[3800];
	const char *extra[16];
	int nextra;
} vf_opts;

static vf_opts VF;

/* ------------------------------------------------------------------ hashing */

static inline uint64_t vf_mix(uint64_t h, uint64_t v)
{
	h ^= v + 0x9e3779b97f4a7c15ULL + (h << 6) + (h >> 2);
	h *= 0xff51afd7ed558ccdULL;
	h ^= h >> 33;
	return h;
}

static inline uint64_t vf_hash(const void *p, size_t n, uint64_t h)
{
	const uint8_t *b = (const uint8_t *) p;
	size_t i;
	h = vf_mix(h, n);
	for (i = 0; i + 8 <= n; i += 8) {
		uint64_t v;
		memcpy(&v, b + i, 8);
		h = vf_mix(h, v);
	}
	if (i < n) {
		uint64_t v = 0;
		memcpy(&v, b + i, n - i);
		h = vf_mix(h, v);
	}
	return h;
}

typedef struct {
	uint64_t *tab;
	size_t cap, count, maxcap;
	int saturated;
} vf_set;

static vf_set VF_STATES, VF_OUTCOMES, VF_NONTRIV;

static void vf_set_add(vf_set *s, uint64_t h)
{
	size_t i;
	if (h == 0) h = 1;
	if (s->tab == NULL) {
		s->cap = 1 << 12;
		if (s->maxcap == 0) s->maxcap = 1 << 22;
		s->tab = calloc(s->cap, sizeof(uint64_t));
	}
	if (s->count * 2 >= s->cap) {
		if (s->cap >= s->maxcap) {
			if (s->count * 10 >= s->cap * 9) { s->saturated = 1; return; }
		} else {
			uint64_t *old = s->tab;
			size_t oc = s->cap, j;
			s->cap *= 2;
			s->tab = calloc(s->cap, sizeof(uint64_t));
			s->count = 0;
			for (j = 0; j < oc; ++j) if (old[j]) {
				i = old[j] & (s->cap - 1);
				while (s->tab[i]) i = (i + 1) & (s->cap - 1);
				s->tab[i] = old[j];
				++s->count;
			}
			free(old);
		}
	}
	i = h & (s->cap - 1);
	while (s->tab[i]) {
		if (s->tab[i] == h) return;
		i = (i + 1) & (s->cap - 1);
	}
	s->tab[i] = h;
	++s->count;
}

static void vf_set_dump(vf_set *s, const char *prefix, const char *suffix)
{
	char path[1024];
	FILE *f;
	size_t i;
	if (prefix == NULL) return;
	snprintf(path, sizeof path, "%s.%s", prefix, suffix);
	f = fopen(path, "wb");
	if (!f) return;
	for (i = 0; i < s->cap; ++i)
		if (s->tab && s->tab[i]) fwrite(&s->tab[i], 8, 1, f);
	fclose(f);
}

/* ------------------------------------------------------------------ options */

static double vf_now(void)
{
	struct timeval tv;
	gettimeofday(&tv, NULL);
	return tv.tv_sec + tv.tv_usec / 1e6;
}

static const char *vf_extra(const char *key, const char *dflt)
{
	int i;
	size_t n = strlen(key);
	for (i = 0; i < VF.nextra; ++i)
		if (!strncmp(VF.extra[i], key, n) && VF.extra[i][n] == '=')
			return VF.extra[i] + n + 1;
	return dflt;
}

static void vf_init(int argc, char **argv)
{
	int i;
	memset(&VF, 0, sizeof VF);
	VF.shard_n = 1;
	VF.only = -1;
	VF.upto = -1;
	VF.index = -1;
	VF.space = "";
	for (i = 1; i < argc; ++i) {
		if (!strcmp(argv[i], "--shard") && i + 1 < argc) {
			sscanf(argv[++i], "%d/%d", &VF.shard_i, &VF.shard_n);
		} else if (!strcmp(argv[i], "--only") && i + 1 < argc) {
			VF.only = atoll(argv[++i]);
		} else if (!strcmp(argv[i], "--upto") && i + 1 < argc) {
			VF.upto = atoll(argv[++i]);      /* replay of a shard's history up to and including this case */
		} else if (!strcmp(argv[i], "--resume") && i + 1 < argc) {
			VF.resume = atoll(argv[++i]);
		} else if (!strcmp(argv[i], "--deadline") && i + 1 < argc) {
			VF.deadline = atof(argv[++i]);
		} else if (!strcmp(argv[i], "--space") && i + 1 < argc) {
			VF.space = argv[++i];
		} else if (!strcmp(argv[i], "--cur") && i + 1 < argc) {
			VF.curfile = argv[++i];
		} else if (!strcmp(argv[i], "--hashes") && i + 1 < argc) {
			VF.hashprefix = argv[++i];
		} else if (!strcmp(argv[i], "--cpu-limit") && i + 1 < argc) {
			VF.cpu_limit = atoi(argv[++i]);
		} else if (!strcmp(argv[i], "--thorough")) {
			VF.thorough = 1;
		} else if (!strcmp(argv[i], "-v")) {
			VF.verbose = 1;
		} else if (strchr(argv[i], '=') && VF.nextra < 16) {
			VF.extra[VF.nextra++] = argv[i];
		} else {
			fprintf(stderr, "unknown argument %s\n", argv[i]);
			exit(2);
		}
	}
	if (VF.curfile) {
		int fd = open(VF.curfile, O_RDWR | O_CREAT, 0644);
		if (fd >= 0 && ftruncate(fd, 4096) == 0) {
			VF.cur = mmap(NULL, 4096, PROT_READ | PROT_WRITE, MAP_SHARED, fd, 0);
			if (VF.cur == MAP_FAILED) VF.cur = NULL;
			else { long long none = -1; memcpy(VF.cur, &none, sizeof none); }
		}
		if (fd >= 0) close(fd);
	}
	setvbuf(stdout, NULL, _IOLBF, 0);
}

/* Announce the next case of the enumeration.  Returns 1 when this process is to run it. */
static int vf_case_pick(void)
{
	++VF.index;
	if (VF.stop) return 0;
	if (VF.only >= 0) return VF.index == VF.only;
	if (VF.upto >= 0 && VF.index > VF.upto) { VF.stop = 1; return 0; }
	if (VF.index < VF.resume) return 0;
	if (VF.index % VF.shard_n != VF.shard_i) return 0;
	if (VF.deadline > 0 && (VF.evaluations & 63) == 0 && vf_now() > VF.deadline) {
		VF.stop = 1;
		return 0;
	}
	return 1;
}

static void vf_case_desc(const char *fmt, ...)
{
	va_list ap;
	va_start(ap, fmt);
	vsnprintf(VF.desc, sizeof VF.desc, fmt, ap);
	va_end(ap);
	++VF.evaluations;
	if (VF.cpu_limit > 0) {
		struct itimerval it;
		memset(&it, 0, sizeof it);
		it.it_value.tv_sec = VF.cpu_limit;
		setitimer(ITIMER_VIRTUAL, &it, NULL);
	}
	if (VF.cur) {
		memcpy(VF.cur, &VF.index, sizeof VF.index);
		strcpy(VF.cur + 16, VF.desc);
	}
	if (VF.samples < 3 || VF.only >= 0) {
		++VF.samples;
		printf("SAMPLE index=%lld %s\n", VF.index, VF.desc);
	}
}

/* convenience: pick + describe; the format is only evaluated for picked cases */
#define vf_case(...) (vf_case_pick() ? (vf_case_desc(__VA_ARGS__), 1) : 0)

/* all cases handed out so far are finished (used by the runner to tell a crash inside a case
 * from a crash at exit) */
static void vf_case_end(void)
{
	if (VF.cur) { long long m = -1; memcpy(VF.cur + 8, &VF.index, 8); (void) m; }
}

static inline void vf_step(uint64_t state_hash)
{
	++VF.transitions;
	vf_set_add(&VF_STATES, state_hash);
}

static inline void vf_outcome(uint64_t h) { vf_set_add(&VF_OUTCOMES, h); }
static inline void vf_nontrivial(uint64_t h) { vf_set_add(&VF_NONTRIV, h); }

static void vf_viol(const char *site, const char *fmt, ...)
{
	va_list ap;
	char msg[1500];
	va_start(ap, fmt);
	vsnprintf(msg, sizeof msg, fmt, ap);
	va_end(ap);
	++VF.violations;
	if (VF.violations <= 200)
		printf("VIOL index=%lld site=%s | %s | %s\n", VF.index, site, VF.desc, msg);
}

static void vf_done(void)
{
	if (VF.cpu_limit > 0) {
		struct itimerval it;
		memset(&it, 0, sizeof it);
		setitimer(ITIMER_VIRTUAL, &it, NULL);
	}
	vf_set_dump(&VF_STATES, VF.hashprefix, "states");
	vf_set_dump(&VF_OUTCOMES, VF.hashprefix, "outcomes");
	vf_set_dump(&VF_NONTRIV, VF.hashprefix, "nontriv");
	printf("DONE space=%s enumerated=%lld evaluations=%lld transitions=%lld states=%zu outcomes=%zu "
	       "nontrivial=%zu violations=%lld truncated=%d saturated=%d\n",
	       VF.space, VF.index + 1, VF.evaluations, VF.transitions, VF_STATES.count,
	       VF_OUTCOMES.count, VF_NONTRIV.count, VF.violations, VF.stop,
	       VF_STATES.saturated | VF_OUTCOMES.saturated | VF_NONTRIV.saturated);
	fflush(stdout);
}

/* hex helper for descriptors */
static const char *vf_hex(const uint8_t *p, size_t n)
{
	static char buf[4][1024];
	static int k;
	char *b = buf[k++ & 3];
	size_t i, m = n > 480 ? 480 : n;
	for (i = 0; i < m; ++i) sprintf(b + 2 * i, "%02x", p[i]);
	if (m < n) strcpy(b + 2 * m, "...");
	else b[2 * m] = 0;
	return b;
}

/* ------------------------------------------------------------------ choice enumerator
 * Stateless depth-first enumeration by prefix replay.  An execution asks vf_choose(e, n) at each
 * choice point; choice 0 is the default answer, any other costs one deviation.  vf_enum_next moves
 * to the next execution whose number of deviations is within the budget. */

#define VF_MAXPOINTS 4096

typedef struct {
	int choice[VF_MAXPOINTS];
	int menu[VF_MAXPOINTS];
	int len;      /* points reached in the current execution */
	int fixed;    /* prefix length to replay */
	int budget;   /* max deviations; <0 = unlimited */
	int diverged;
} vf_enum;

static void vf_enum_init(vf_enum *e, int budget)
{
	memset(e, 0, sizeof *e);
	e->budget = budget;
}

static void vf_enum_begin(vf_enum *e) { e->len = 0; }

static int vf_choose(vf_enum *e, int n)
{
	int c = 0;
	if (e->len >= VF_MAXPOINTS) return 0;
	if (e->len < e->fixed) {
		c = e->choice[e->len];
		if (c >= n) { e->diverged = 1; c = 0; }   /* replay divergence: harness error */
	}
	e->choice[e->len] = c;
	e->menu[e->len] = n;
	++e->len;
	return c;
}

static int vf_enum_next(vf_enum *e)
{
	int i, dev;
	for (i = e->len - 1; i >= 0; --i) {
		int j;
		if (e->choice[i] + 1 >= e->menu[i]) continue;
		if (e->budget >= 0) {
			dev = 0;
			for (j = 0; j < i; ++j) if (e->choice[j]) ++dev;
			if (dev + 1 > e->budget) continue;
		}
		++e->choice[i];
		e->fixed = i + 1;
		return 1;
	}
	return 0;
}

static const char *vf_enum_str(vf_enum *e)
{
	static char buf[1024];
	int i, n = 0;
	buf[0] = 0;
	for (i = 0; i < e->len && n < 1000; ++i)
		n += snprintf(buf + n, sizeof buf - n, "%d.", e->choice[i]);
	return buf;
}

/* ------------------------------------------------------------------ dead-stack poisoning
 * Overwrite the stack below the caller with a pattern, so that any read of an uninitialised
 * automatic variable in the callee sees the pattern: two runs with two patterns must agree. */
static void __attribute__((noinline)) vf_poison_stack(int pattern)
{
	volatile uint8_t area[24576];
	size_t i;
	for (i = 0; i < sizeof area; ++i) area[i] = (uint8_t) pattern;
	__asm__ volatile("" ::: "memory");
}

#endif
