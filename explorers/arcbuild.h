/* archive builder on top of the reference header encoder and the reference stream serialisers */
#ifndef ARCBUILD_H
#define ARCBUILD_H
#include "ref_header.h"
#include "ref_crc16.h"
#include "streams.h"

#define AB_MAXMEM 64

typedef struct {
	size_t hdr_off, hdr_len, data_off, data_len;
	char method[6];
	int kind;                 /* 0 file, 1 directory, 2 symlink */
	uint8_t *plain; size_t plain_len;
	uint16_t crc;
	int level;
	char path[128], name[128], target[128];   /* as the reader should return them */
	int supported;
	unsigned perms; uint32_t mtime; int unix_meta;
	uint8_t *visible; size_t visible_len;     /* what a read of the member yields when it differs from plain (MacBinary) */
} ab_member;

typedef struct {
	uint8_t *buf; size_t n, cap;
	ab_member m[AB_MAXMEM];
	int nm;
} ab_arc;

static void ab_init(ab_arc *a, size_t cap)
{
	memset(a, 0, sizeof *a);
	a->buf = malloc(cap); a->cap = cap;
}

static void ab_free(ab_arc *a)
{
	int i;
	for (i = 0; i < a->nm; ++i) { free(a->m[i].plain); free(a->m[i].visible); }
	free(a->buf);
	memset(a, 0, sizeof *a);
}

static void ab_raw(ab_arc *a, const void *p, size_t n)
{
	if (a->n + n <= a->cap) { memcpy(a->buf + a->n, p, n); a->n += n; }
}

/* stub bytes free of method signatures and SFX markers */
static void ab_stub(ab_arc *a, size_t n, int family)
{
	size_t i;
	for (i = 0; i < n && a->n < a->cap; ++i)
		a->buf[a->n++] = family == 0 ? 0x00 : family == 1 ? (uint8_t) ('A' + i % 23) : (uint8_t) (0x80 | (i * 37 % 127));
}

/* when set, file members get their name twice (two 0x01 headers; level 1: in-header name and a 0x01 header) */
static int AB_DOUBLE_NAME;

/* path uses '/' separators and ends with '/', or is "" */
static ab_member *ab_add(ab_arc *a, int level, int kind, const char *method, const char *path, const char *name,
                         const char *target, size_t plain_target, unsigned seed, int unix_meta, unsigned perms, uint32_t mtime)
{
	ab_member *m = &a->m[a->nm];
	ref_hdr f;
	static uint8_t data[1 << 21];
	static uint8_t nm[512], pt[512], perm2[2], ug[4], ts[4], uarea[12];
	size_t dl = 0, pl = 0, i, hl;
	memset(m, 0, sizeof *m);
	memset(&f, 0, sizeof f);
	m->kind = kind; m->level = level;
	m->perms = perms; m->mtime = mtime; m->unix_meta = unix_meta;
	snprintf(m->method, sizeof m->method, "%s", kind == 0 ? method : "-lhd-");
	snprintf(m->path, sizeof m->path, "%s", path);
	snprintf(m->name, sizeof m->name, "%s", name);
	snprintf(m->target, sizeof m->target, "%s", target ? target : "");
	m->supported = kind != 0 || lha_decoder_for_name((char *) method) != NULL;
	if (kind == 0) {
		m->plain = malloc(plain_target + 1024);
		if (m->supported && plain_target > 0) {
			dl = make_stream(method, plain_target, seed, data, sizeof data, m->plain, plain_target + 1000, &pl);
			if (pl > plain_target + 1000) pl = 0, dl = 0;
		} else if (plain_target > 0) {
			for (i = 0; i < plain_target; ++i) data[i] = m->plain[i] = (uint8_t) (i * 3 + seed);
			dl = pl = plain_target;
		}
		m->plain_len = pl;
		m->crc = ref_crc16(0, m->plain, pl);
	}
	f.level = level;
	memcpy(f.method, m->method, 5);
	f.attr = 0x20;
	f.os = 'U';
	f.packed = (uint32_t) dl; f.size = (uint32_t) pl; f.crc = m->crc;
	f.name = (const uint8_t *) ""; f.area = (const uint8_t *) "";
	perm2[0] = (uint8_t) perms; perm2[1] = (uint8_t) (perms >> 8);
	ug[0] = 0xE8; ug[1] = 0x03; ug[2] = 0xE8; ug[3] = 0x03;
	ts[0] = (uint8_t) mtime; ts[1] = (uint8_t) (mtime >> 8); ts[2] = (uint8_t) (mtime >> 16); ts[3] = (uint8_t) (mtime >> 24);
	/* stored name: path + name (+ |target) */
	{
		char full[400];
		snprintf(full, sizeof full, "%s%s%s%s", path, name, kind == 2 ? "|" : "", kind == 2 ? target : "");
		if (level <= 1) {
			size_t L = strlen(full);
			for (i = 0; i < L; ++i) nm[i] = full[i] == '/' ? '\\' : (uint8_t) full[i];
			/* a link target keeps its '/' characters only through the extended headers: level 0/1 links use them raw */
			f.name = nm; f.name_len = L;
			if (kind == 2) for (i = 0; i < L; ++i) nm[i] = (uint8_t) full[i];
		} else {
			/* the joined string path+name[|target] is split at its last '/': directory part -> path header, rest -> name header */
			char *ls = strrchr(full, '/');
			size_t L = ls ? (size_t) (ls - full) + 1 : 0;
			for (i = 0; i < L; ++i) pt[i] = full[i] == '/' ? 0xFF : (uint8_t) full[i];
			if (L) { f.ext[f.next].type = 2; f.ext[f.next].data = pt; f.ext[f.next].len = L; ++f.next; }
			snprintf((char *) nm, sizeof nm, "%s", full + L);
			if (nm[0] && AB_DOUBLE_NAME) { f.ext[f.next].type = 1; f.ext[f.next].data = (const uint8_t *) "a-longer-name-first.tmp"; f.ext[f.next].len = 23; ++f.next; }
			if (nm[0]) { f.ext[f.next].type = 1; f.ext[f.next].data = nm; f.ext[f.next].len = strlen((char *) nm); ++f.next; }
		}
		if (level == 1 && AB_DOUBLE_NAME && kind == 0 && name[0]) {
			/* the file name once more in a 0x01 header after the in-header one */
			f.ext[f.next].type = 1; f.ext[f.next].data = (const uint8_t *) name; f.ext[f.next].len = strlen(name); ++f.next;
		}
	}
	if (level <= 1) f.time_raw = 0x3C21A000u; else f.time_raw = mtime;
	if (unix_meta || kind == 2) {
		if (level == 0) {
			uarea[0] = 'U'; uarea[1] = 0; memcpy(uarea + 2, ts, 4); memcpy(uarea + 6, perm2, 2); memcpy(uarea + 8, ug, 4);
			f.area = uarea; f.area_len = 12;
		} else {
			f.ext[f.next].type = 0x50; f.ext[f.next].data = perm2; f.ext[f.next].len = 2; ++f.next;
			f.ext[f.next].type = 0x51; f.ext[f.next].data = ug; f.ext[f.next].len = 4; ++f.next;
			if (level == 1) { f.ext[f.next].type = 0x54; f.ext[f.next].data = ts; f.ext[f.next].len = 4; ++f.next; }
		}
	}
	{
		/* what a reader must return: the reference normalisation of this very record */
		ref_norm nn;
		if (!ref_hdr_normalise(&f, &nn)) return NULL;
		snprintf(m->path, sizeof m->path, "%s", nn.has_path ? nn.path : "");
		snprintf(m->name, sizeof m->name, "%s", nn.has_filename ? nn.filename : "");
		snprintf(m->target, sizeof m->target, "%s", nn.has_target ? nn.target : "");
		ref_norm_free(&nn);
	}
	m->hdr_off = a->n;
	hl = ref_hdr_encode(&f, a->buf + a->n, a->cap - a->n);
	if (hl == 0 || a->n + hl + dl > a->cap) return NULL;
	m->hdr_len = hl;
	a->n += hl;
	m->data_off = a->n; m->data_len = dl;
	memcpy(a->buf + a->n, data, dl);
	a->n += dl;
	++a->nm;
	return m;
}

/* A MacLHA member (OS type 'm', stored): with envelope != 0 the data is wrapped in a MacBinary header that a reader
 * strips (data fork, or the resource fork when the data fork is empty); padded to a multiple of 128. */
static ab_member *ab_add_mac(ab_arc *a, int level, const char *name, size_t data_fork, size_t res_fork, int envelope, uint32_t mtime)
{
	ab_member *m = &a->m[a->nm];
	ref_hdr f;
	size_t total, i, hl, vis;
	uint8_t *p;
	static uint8_t nm[128];
	memset(m, 0, sizeof *m);
	memset(&f, 0, sizeof f);
	total = envelope ? ((128 + data_fork + res_fork + 127) & ~(size_t) 127) : data_fork;
	p = m->plain = calloc(1, total + 16);
	if (envelope) {
		size_t nl = strlen(name);
		uint32_t md = mtime + 2082844800u;
		p[1] = (uint8_t) nl; memcpy(p + 2, name, nl);
		memcpy(p + 0x41, "TEXTttxt", 8);
		p[0x53] = (uint8_t) (data_fork >> 24); p[0x54] = (uint8_t) (data_fork >> 16); p[0x55] = (uint8_t) (data_fork >> 8); p[0x56] = (uint8_t) data_fork;
		p[0x57] = (uint8_t) (res_fork >> 24); p[0x58] = (uint8_t) (res_fork >> 16); p[0x59] = (uint8_t) (res_fork >> 8); p[0x5a] = (uint8_t) res_fork;
		p[0x5f] = (uint8_t) (md >> 24); p[0x60] = (uint8_t) (md >> 16); p[0x61] = (uint8_t) (md >> 8); p[0x62] = (uint8_t) md;
		for (i = 0; i < data_fork + res_fork; ++i) p[128 + i] = (uint8_t) ('A' + i % 53);
		vis = data_fork ? data_fork : res_fork;
		m->visible = malloc(vis + 1); memcpy(m->visible, p + 128, vis); m->visible_len = vis;
	} else {
		for (i = 0; i < data_fork; ++i) p[i] = (uint8_t) ('a' + i % 41);
	}
	m->plain_len = total;
	m->crc = ref_crc16(0, p, total);
	m->kind = 0; m->level = level; m->supported = 1;
	memcpy(m->method, "-lh0-", 6);
	snprintf(m->name, sizeof m->name, "%s", name);
	f.level = level; memcpy(f.method, "-lh0-", 5); f.attr = 0x20; f.os = 'm';
	f.packed = f.size = (uint32_t) total; f.crc = m->crc;
	f.name = (const uint8_t *) ""; f.area = (const uint8_t *) "";
	f.time_raw = mtime;
	if (level <= 1) { memcpy(nm, name, strlen(name)); f.name = nm; f.name_len = strlen(name); f.time_raw = 0x3C21A000u; }
	else { memcpy(nm, name, strlen(name)); f.ext[0].type = 1; f.ext[0].data = nm; f.ext[0].len = strlen(name); f.next = 1; }
	m->hdr_off = a->n;
	hl = ref_hdr_encode(&f, a->buf + a->n, a->cap - a->n);
	if (hl == 0 || a->n + hl + total > a->cap) return NULL;
	m->hdr_len = hl; a->n += hl;
	m->data_off = a->n; m->data_len = total;
	memcpy(a->buf + a->n, p, total); a->n += total;
	++a->nm;
	return m;
}
#endif
