/* prints the recorded header-dump format from the REFERENCE parser + normaliser (no lhasa code):
 * usage: ref_hdrdump <archive> <offset of first header> [london] */
#include <stdio.h>
#include <stdlib.h>
#include <string.h>
#include <inttypes.h>
#include "ref_header.h"

/* UK civil time rules, for the recorded dumps only (they were made with TZ=Europe/London) */
static int last_sunday(int year, int month)
{
	/* day of month of the last Sunday: Zeller-free, via a known anchor */
	static const int mdays[] = { 31, 28, 31, 30, 31, 30, 31, 31, 30, 31, 30, 31 };
	int d = mdays[month - 1], y = year, m = month, dow;
	/* Sakamoto */
	static const int t[] = { 0, 3, 2, 5, 0, 3, 5, 1, 4, 6, 2, 4 };
	if (m < 3) y -= 1;
	dow = (y + y / 4 - y / 100 + y / 400 + t[m - 1] + d) % 7;     /* 0 = Sunday */
	return d - dow;
}
static uint32_t london_adjust(uint32_t dos, uint32_t utc_as_if)
{
	/* local civil time -> UTC: BST between last Sunday of March 01:00 UTC and last Sunday of October 01:00 UTC */
	int year = 1980 + ((dos >> 25) & 0x7F), mon = (dos >> 21) & 0xF, day = (dos >> 16) & 0x1F, hour = (dos >> 11) & 0x1F;
	int bst = 0;
	if (dos == 0) return 0;
	if (mon > 3 && mon < 10) bst = 1;
	else if (mon == 3) { int ls = last_sunday(year, 3); bst = day > ls || (day == ls && hour >= 2); }
	else if (mon == 10) { int ls = last_sunday(year, 10); bst = day < ls || (day == ls && hour < 1); }
	return utc_as_if - (bst ? 3600 : 0);
}

int main(int argc, char **argv)
{
	FILE *f = fopen(argv[1], "rb");
	size_t off = argc > 2 ? (size_t) atol(argv[2]) : 0, len;
	int london = argc > 3;
	uint8_t *buf;
	if (!f) return 2;
	fseek(f, 0, SEEK_END); len = (size_t) ftell(f); fseek(f, 0, SEEK_SET);
	buf = malloc(len + 1);
	if (fread(buf, 1, len, f) != len) return 2;
	while (off < len) {
		ref_hdr h;
		ref_norm n;
		const char *why;
		if (ref_hdr_parse(buf + off, len - off, &h, &why) != REF_INT_OK) break;
		if (!ref_hdr_normalise(&h, &n)) break;
		if (london && h.level <= 1 && n.timestamp == ref_dos_to_unix(h.time_raw)) n.timestamp = london_adjust(h.time_raw, n.timestamp);
		if (n.has_path) printf("path: %s\n", n.path);
		if (n.has_filename) printf("filename: %s\n", n.filename);
		if (n.has_target) printf("symlink_target: %s\n", n.target);
		printf("compress_method: %.5s\n", n.method);
		printf("compressed_length: %i\n", (int) n.compressed_length);
		printf("length: %i\n", (int) n.length);
		printf("header_level: %i\n", n.level);
		printf("os_type: %i", n.os_type);
		if (n.os_type) printf(" ('%c')", n.os_type);
		printf("\n");
		printf("crc: %04x\n", n.crc);
		if (n.timestamp) printf("timestamp: %i\n", (int) n.timestamp);
		if (n.extra_flags & 8) {
			printf("win_creation_time: %" PRIu64 "\n", n.win_creation);
			printf("win_modification_time: %" PRIu64 "\n", n.win_modification);
			printf("win_access_time: %" PRIu64 "\n", n.win_access);
		}
		if (n.extra_flags & 1) printf("unix_perms: 0%o\n", n.unix_perms);
		if (n.extra_flags & 16) printf("os9_perms: 0%o\n", n.os9_perms);
		if (n.extra_flags & 2) { printf("unix_uid: %i\n", n.unix_uid); printf("unix_gid: %i\n", n.unix_gid); }
		if (n.has_group) printf("unix_group: %s\n", n.group);
		if (n.has_user) printf("unix_username: %s\n", n.user);
		if (n.extra_flags & 4) printf("common_crc: %04x\n", n.common_crc);
		printf("--\n");
		off += h.header_len + h.packed;
		ref_norm_free(&n);
	}
	return 0;
}
