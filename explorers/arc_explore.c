/* E2: header-level exploration through the real reader.  Spaces: paths (C11), integrity (C12), chains/sweeps (C05) */
#include "arc_common.h"
#ifndef VF_NO_INTERNALS
#include "lha_basic_reader.h"
#endif

static uint8_t ABUF[4 << 20];

static const uint8_t DATA5[5] = { 'h', 'e', 'l', 'l', 'o' };

static void hdr_init(ref_hdr *f, int level, const char *method)
{
	memset(f, 0, sizeof *f);
	f->level = level;
	memcpy(f->method, method, 5);
	f->attr = 0x20;
	f->os = 'U';
	f->time_raw = level <= 1 ? 0x3C21A000u : 1262304000u;   /* 2010-01-01 */
	f->name = (const uint8_t *) ""; f->area = (const uint8_t *) "";
}

static void add_ext(ref_hdr *f, int type, const void *data, size_t len)
{
	f->ext[f->next].type = (uint8_t) type; f->ext[f->next].data = data; f->ext[f->next].len = len; ++f->next;
}

/* An archive of three richly decorated members (levels 2, 1, 0) read to the end through another reader in this process before
 * the case's own archive (every 4th case, and always when a single case is replayed): nothing of one archive's headers may be
 * carried into the next reader. */
static void pollute_headers(void)
{
	static uint8_t P[4096];
	static size_t pn;
	mem_stream ms;
	LHAInputStream *st;
	LHAReader *rd;
	if (!pn) {
		ref_hdr f;
		static const uint8_t path[] = "very\xFF" "long\xFF" "directory\xFF" "chain\xFF", uid[4] = { 0xE8, 0x03, 0xE9, 0x03 }, perm[2] = { 0xED, 0x81 }, ts[4] = { 0x80, 0x43, 0x3D, 0x4B };
		hdr_init(&f, 2, "-lh0-");
		add_ext(&f, 1, "a-long-file-name.with.ext|../../target/of/link", 46);
		add_ext(&f, 2, path, sizeof path - 1);
		add_ext(&f, 0x50, perm, 2); add_ext(&f, 0x51, uid, 4); add_ext(&f, 0x52, "groupname", 9); add_ext(&f, 0x53, "username", 8); add_ext(&f, 0x54, ts, 4);
		f.packed = 5; f.size = 5; f.crc = ref_crc16(0, DATA5, 5);
		pn = ref_hdr_encode(&f, P, sizeof P);
		memcpy(P + pn, DATA5, 5); pn += 5;
		hdr_init(&f, 1, "-lh0-");
		f.name = (const uint8_t *) "DIR\\SUB\\NAME.EXT"; f.name_len = 16;
		add_ext(&f, 2, path, sizeof path - 1); add_ext(&f, 0x50, perm, 2); add_ext(&f, 0x51, uid, 4);
		f.packed = 5; f.size = 5; f.crc = ref_crc16(0, DATA5, 5);
		{ size_t k = ref_hdr_encode(&f, P + pn, sizeof P - pn); pn += k; memcpy(P + pn, DATA5, 5); pn += 5; }
		hdr_init(&f, 0, "-lhd-");
		f.name = (const uint8_t *) "SOME\\DIRECTORY\\"; f.name_len = 15;
		{ size_t k = ref_hdr_encode(&f, P + pn, sizeof P - pn); pn += k; }
	}
	st = mem_open(&ms, P, pn, 1);
	rd = lha_reader_new(st);
	while (lha_reader_next_file(rd) != NULL);
	lha_reader_free(rd);
	lha_input_stream_free(st);
}

/* Feed an archive and check the first returned header against the record.  what: 1 = also check C11 invariant,
 * 2 = require agreement with normalise, 4 = check that the member data follows the header */
static void check_record(const ref_hdr *f, const uint8_t *data, size_t dlen, int what, const char *site_prefix)
{
	size_t hl = ref_hdr_encode(f, ABUF, sizeof ABUF);
	mem_stream ms;
	LHAInputStream *st;
	LHAReader *rd;
	LHAFileHeader *h;
	ref_norm n;
	ref_hdr back;
	const char *why;
	int wf;
	uint64_t hh;
	char site[64];
	if (hl == 0) { printf("HARNESS encoder refused %s\n", VF.desc); return; }
	memcpy(ABUF + hl, data, dlen);
	/* the encoder output must parse back under the reference parser (harness sanity) */
	{
		ref_integrity v0 = ref_hdr_parse(ABUF, hl + dlen, &back, &why);
		if (v0 == REF_INT_ABSTAIN) return;      /* e.g. two common-CRC headers: the statement does not say which one counts */
	}
	if ((ref_hdr_parse(ABUF, hl + dlen, &back, &why) != REF_INT_OK || back.header_len != hl) && f->os == 'K' && f->level == 2)
		return;       /* OS-9/68k writes its level-2 length two short: the smallest headers fall below the level minimum and are no headers */
	if (ref_hdr_parse(ABUF, hl + dlen, &back, &why) != REF_INT_OK || back.header_len != hl) {
		printf("HARNESS reference parser rejects encoder output (%s) for %s\n", why, VF.desc);
		return;
	}
	wf = ref_hdr_normalise(&back, &n);
	if ((VF.index & 3) == 2 || VF.only >= 0) pollute_headers();
	if ((VF.index & 3) == 1) {
		/* the same archive from a source without a skip callback (the library reads over what it would skip); the answers stay
		 * full: the reader takes a short answer of its read callback for the end of the input, which no listed property forbids */
		uint64_t h1, h2;
		st = mem_open(&ms, ABUF, hl + dlen, 0);
		rd = lha_reader_new(st);
		h1 = header_hash(lha_reader_next_file(rd));
		lha_reader_free(rd); lha_input_stream_free(st);
		st = mem_open(&ms, ABUF, hl + dlen, 1);
		rd = lha_reader_new(st);
		h2 = header_hash(lha_reader_next_file(rd));
		lha_reader_free(rd); lha_input_stream_free(st);
		if (h1 != h2) {
			snprintf(site, sizeof site, "%s-stream-kind", site_prefix);
			vf_viol(site, "the header returned from callbacks without a skip function differs from the one returned with it");
		}
	}
	st = mem_open(&ms, ABUF, hl + dlen, 1);
	rd = lha_reader_new(st);
	h = lha_reader_next_file(rd);
	hh = header_hash(h);
	vf_step(hh);
	if (h && (what & 1)) {
		const char *bad = path_invariant(h);
		if (bad) {
			snprintf(site, sizeof site, "%s-invariant", site_prefix);
			vf_viol(site, "%s: path=[%s] filename=[%s]", bad, h->path ? h->path : "(null)", h->filename ? h->filename : "(null)");
		}
	}
	if (what & 2) {
		if (wf && !h) {
			snprintf(site, sizeof site, "%s-not-returned", site_prefix);
			vf_viol(site, "well-formed header was not returned (level %d)", f->level);
		} else if (wf && h) {
			const char *d = header_diff(h, &n);
			if (d) {
				snprintf(site, sizeof site, "%s-%s", site_prefix, d);
				vf_viol(site, "field %s differs: path=[%s]/[%s] filename=[%s]/[%s] target=[%s]/[%s] method=%.5s/%.5s clen=%zu/%u len=%zu/%u ts=%u/%u flags=%x/%x perms=%o/%o",
				        d, h->path ? h->path : "(null)", n.has_path ? n.path : "(null)", h->filename ? h->filename : "(null)", n.has_filename ? n.filename : "(null)",
				        h->symlink_target ? h->symlink_target : "(null)", n.has_target ? n.target : "(null)", h->compress_method, n.method,
				        h->compressed_length, n.compressed_length, h->length, n.length, h->timestamp, n.timestamp, h->extra_flags, n.extra_flags, h->unix_perms, n.unix_perms);
			}
		} else if (!wf && h) {
			snprintf(site, sizeof site, "%s-unexpected", site_prefix);
			vf_viol(site, "an entry the rules reject was returned: path=[%s] filename=[%s]", h->path ? h->path : "(null)", h->filename ? h->filename : "(null)");
		}
	}
	if ((what & 4) && h && wf && (VF.index & 1) && hl + dlen + 64 < sizeof ABUF) {
		/* the member is followed by another one and is passed over without being read: the next header is found right behind
		 * its data (whatever the first header's length, also below the size of the stream's own look-ahead) */
		static const uint8_t nxt[] = { 0 };
		ref_hdr g;
		size_t gl;
		mem_stream ms2;
		LHAInputStream *st2;
		LHAReader *rd2;
		LHAFileHeader *h2;
		(void) nxt;
		hdr_init(&g, 0, "-lh0-");
		g.name = (const uint8_t *) "NEXT.TXT"; g.name_len = 8; g.size = g.packed = 0;
		gl = ref_hdr_encode(&g, ABUF + hl + dlen, sizeof ABUF - hl - dlen);
		if (gl) {
			st2 = mem_open(&ms2, ABUF, hl + dlen + gl, (VF.index & 2) ? 1 : 2);
			rd2 = lha_reader_new(st2);
			h2 = lha_reader_next_file(rd2);
			h2 = h2 ? lha_reader_next_file(rd2) : NULL;
			if (!h2 || !h2->filename || strcmp(h2->filename, "next.txt")) {
				snprintf(site, sizeof site, "%s-next-member-lost", site_prefix);
				vf_viol(site, "the member behind this one (passed over without reading its %zu bytes of data) was not returned", dlen);
			}
			lha_reader_free(rd2);
			lha_input_stream_free(st2);
		}
	}
	if ((what & 4) && h && wf && dlen && !memcmp(h->compress_method, "-lh0-", 5)) {
		uint8_t got[64];
		size_t k = lha_reader_read(rd, got, sizeof got);
		size_t want = dlen < n.length ? dlen : n.length;
		if (want > sizeof got) want = sizeof got;
		if (k != want || memcmp(got, data, want)) {
			snprintf(site, sizeof site, "%s-data-offset", site_prefix);
			vf_viol(site, "member data not found directly after the header (%zu bytes read, %zu expected)", k, want);
		}
		if (lha_reader_next_file(rd) != NULL) {
			snprintf(site, sizeof site, "%s-trailing", site_prefix);
			vf_viol(site, "a second entry was returned from a one-member archive");
		}
	}
	vf_outcome(hh ^ (uint64_t) wf);
	lha_reader_free(rd);
	lha_input_stream_free(st);
	ref_norm_free(&n);
}

/* ====================================================================== C11: paths */

static const char *os_name(uint8_t o)
{
	static char b[8];
	if (o >= 0x21 && o < 0x7F) snprintf(b, sizeof b, "%c", o); else snprintf(b, sizeof b, "0x%02x", o);
	return b;
}

static uint8_t ALPHA6[7] = { '.', '/', '\\', 0xFF, 0x00, 'a', '|' };

static void space_paths(void)
{
	int maxlen = atoi(vf_extra("maxlen", "6"));
	int carrier = atoi(vf_extra("carrier", "-1"));
	int len, i, c, os_i, na;
	int allos = atoi(vf_extra("allos", "0"));
	if (atoi(vf_extra("controls", "0"))) {
		/* control bytes next to letters that case folding touches: 0x0e/0x0f are '.' and '/' minus 0x20 */
		static const uint8_t alt[7] = { 0x0E, 0x0F, '\\', 'A', 0x1F, 'Z', '|' };
		memcpy(ALPHA6, alt, 7);
	}
	static uint8_t oss[256] = { 'M', 'U' };
	int noss = 2;
	if (allos) { for (noss = 0; noss < 256; ++noss) oss[noss] = (uint8_t) noss; }
	for (c = 0; c < 12; ++c) {
		if (carrier >= 0 && c != carrier) continue;
		na = c >= 7 && c <= 8 ? 7 : 6;                                /* link carriers add '|' */
		for (os_i = 0; os_i < noss; ++os_i)
		for (len = 0; len <= maxlen; ++len) {
			int idx[12];
			if (c >= 5 && c <= 6 && len > maxlen) continue;
			memset(idx, 0, sizeof idx);
			for (;;) {
				uint8_t s[12], s1[12], s2[12];
				ref_hdr f;
				uint16_t perm = 0120777;
				uint8_t pb[2];
				int split;
				for (i = 0; i < len; ++i) s[i] = ALPHA6[idx[i]];
				pb[0] = (uint8_t) (perm & 0xFF); pb[1] = (uint8_t) (perm >> 8);
				/* pair carriers: every split point */
				for (split = 0; split <= ((c == 5 || c == 6 || c == 8) ? len : 0); ++split) {
					if (!vf_case("carrier=%d os=%s len=%d split=%d bytes=%s", c, os_name(oss[os_i]), len, split, vf_hex(s, len))) continue;
					memcpy(s1, s, split); memcpy(s2, s + split, len - split);
					switch (c) {
					case 0: hdr_init(&f, 0, "-lh0-"); f.name = s; f.name_len = len; break;
					case 1: hdr_init(&f, 1, "-lh0-"); f.name = s; f.name_len = len; break;
					case 2: hdr_init(&f, 2, "-lh0-"); if (len) add_ext(&f, 2, s, len); add_ext(&f, 1, "n", 1); break;
					case 3: hdr_init(&f, 2, "-lh0-"); if (len) add_ext(&f, 1, s, len); add_ext(&f, 2, "p\xff", 2); break;
					case 4: hdr_init(&f, 2, "-lhd-"); if (len) add_ext(&f, 2, s, len); break;
					case 5: hdr_init(&f, 1, "-lh0-"); f.name = s1; f.name_len = split; if (len - split) add_ext(&f, 2, s2, len - split); break;
					case 6: hdr_init(&f, 2, "-lh0-"); if (split) add_ext(&f, 2, s1, split); if (len - split) add_ext(&f, 1, s2, len - split); break;
					case 7: hdr_init(&f, 2, "-lhd-"); add_ext(&f, 0x50, pb, 2); if (len) add_ext(&f, 1, s, len); break;
					/* the name or the path supplied twice: a longer harmless one first, the string under test second */
					case 9: hdr_init(&f, 1, "-lh0-"); f.name = (const uint8_t *) "aaaaaaaaaa"; f.name_len = 10; if (len) add_ext(&f, 1, s, len); break;
					case 10: hdr_init(&f, 2, "-lh0-"); add_ext(&f, 1, "aaaaaaaaaa", 10); if (len) add_ext(&f, 1, s, len); break;
					case 11: hdr_init(&f, 2, "-lh0-"); add_ext(&f, 2, "aaaaaaaaaa\xff", 11); if (len) add_ext(&f, 2, s, len); add_ext(&f, 1, "n", 1); break;
					default: hdr_init(&f, 2, "-lhd-"); add_ext(&f, 0x50, pb, 2); if (split) add_ext(&f, 2, s1, split); if (len - split) add_ext(&f, 1, s2, len - split); break;
					}
					f.os = oss[os_i];
					f.size = f.packed = memcmp(f.method, "-lhd-", 5) ? 5 : 0;
					f.crc = f.size ? ref_crc16(0, DATA5, 5) : 0;
					check_record(&f, DATA5, f.packed, 1 | 2, "c11");
					if (len > 1) vf_nontrivial(vf_hash(s, len, (uint64_t) c * 64 + os_i * 16 + split));
				}
				for (i = len - 1; i >= 0; --i) { if (++idx[i] < na) break; idx[i] = 0; }
				if (i < 0) break;
			}
		}
	}
}

/* long stored paths and names (level 3 carries up to 1 MiB): components of the kinds the invariant forbids placed far inside
 * them, around offsets 255/256, 65535/65536 and at the very end */
static void space_longpaths(void)
{
	static const size_t totals[] = { 255, 256, 257, 4096, 65534, 65535, 65536, 65537, 200000 };
	static const char *bad[] = { "..", ".", "", "...", "..a", "a..", "." "\\" ".." };
	static uint8_t pth[200100], nam[200100];
	unsigned ti, bi, where, form;
	for (ti = 0; ti < sizeof totals / sizeof *totals; ++ti)
	for (bi = 0; bi < sizeof bad / sizeof *bad; ++bi)
	for (where = 0; where < 5; ++where)
	for (form = 0; form < 3; ++form) {
		size_t T = totals[ti], n = 0, at, bl = strlen(bad[bi]), i;
		ref_hdr f;
		/* the bad component starts at: the beginning, just before 255, just before 65535, the middle, the end */
		at = where == 0 ? 0 : where == 1 ? 252 : where == 2 ? 65532 : where == 3 ? T / 2 : T;
		if (at > T) continue;
		if (!vf_case("long %s of about %zu bytes, component '%s' at %zu, OS %c", form == 0 ? "path header" : form == 1 ? "name header" : "path header of a directory entry", T, bad[bi], at, form == 2 ? 'M' : 'U')) continue;
		while (n < T + 8 && n < sizeof pth - 16) {
			if (n >= at && at != (size_t) -1) {
				for (i = 0; i < bl; ++i) pth[n++] = bad[bi][i] == '\\' ? 0xFF : (uint8_t) bad[bi][i];
				pth[n++] = 0xFF;
				at = (size_t) -1;
				continue;
			}
			pth[n++] = 'a'; pth[n++] = (uint8_t) ('b' + n % 20); pth[n++] = 0xFF;
		}
		hdr_init(&f, 3, form == 2 ? "-lhd-" : "-lh0-");
		f.os = form == 2 ? 'M' : 'U';
		if (form == 1) {
			/* the same bytes as a file name: separators inside a name are rewritten, never interpreted */
			for (i = 0; i < n; ++i) nam[i] = pth[i] == 0xFF ? (i % 2 ? '/' : '\\') : pth[i];
			add_ext(&f, 1, nam, n);
			add_ext(&f, 2, "d\xff", 2);
		} else {
			add_ext(&f, 2, pth, n);
			if (form == 0) add_ext(&f, 1, "n", 1);
		}
		f.size = f.packed = form == 2 ? 0 : 5;
		f.crc = form == 2 ? 0 : ref_crc16(0, DATA5, 5);
		check_record(&f, DATA5, f.packed, 1 | 2, "c11");
		vf_nontrivial(vf_mix(ti * 64 + bi * 8 + where, form) + 5);
	}
}

/* ====================================================================== seeds for C12 / C05-perturbed */

static uint8_t SEEDS[256][512];
static size_t SEEDLEN[256];
static int NSEEDS, NSEEDS_MAIN;

static void make_seeds(void)
{
	static const uint8_t wts[24] = { 1, 2, 3, 4, 5, 6, 7, 8, 9, 10, 11, 12, 13, 14, 15, 16, 17, 18, 19, 20, 21, 22, 23, 24 };
	static const uint8_t perms_f[2] = { 0xA4, 0x81 }, perms_d[2] = { 0xED, 0x41 }, perms_l[2] = { 0xFF, 0xA1 };
	static const uint8_t uidgid[4] = { 0xE8, 0x03, 0xE9, 0x03 }, ts[4] = { 0x00, 0x5C, 0x3D, 0x4B };
	static const uint8_t os9[12] = { 0, 0, 0, 0, 0, 0, 0, 0x23, 0, 0, 0, 0 };
	static const uint8_t uarea[12] = { 'U', 0, 0x00, 0x5C, 0x3D, 0x4B, 0xA4, 0x81, 0xE8, 0x03, 0xE9, 0x03 };
	int level, kind, variant;
	NSEEDS = 0;
	for (level = 0; level <= 3; ++level)
	for (kind = 0; kind < 3; ++kind)            /* file, directory, symlink */
	for (variant = 0; variant < 8; ++variant) {
		ref_hdr f;
		if (level == 0 && variant > 3) continue;
		if (level == 0 && kind == 2 && !(variant & 1)) continue;
		hdr_init(&f, level, kind == 0 ? "-lh0-" : "-lhd-");
		f.os = variant & 4 ? 'M' : 'U';
		if (level <= 1) {
			f.name = (const uint8_t *) (kind == 0 ? "dir\\File.txt" : kind == 1 ? "sub\\dir\\" : "lnk|tgt/x");
			f.name_len = strlen((const char *) f.name);
			if (level == 0 && (variant & 1)) { f.area = uarea; f.area_len = 12; }
			if (level == 1 && kind == 2) add_ext(&f, 0x50, perms_l, 2);
		} else {
			if (kind == 0) { add_ext(&f, 1, "File.txt", 8); if (variant & 1) add_ext(&f, 2, "dir\xffsub\xff", 8); }
			else if (kind == 1) add_ext(&f, 2, "sub\xff" "dir\xff", 8);
			else { add_ext(&f, 1, "lnk|../tgt", 10); add_ext(&f, 0x50, perms_l, 2); }
		}
		if (level >= 1) {
			if (variant & 2) {
				if (kind != 2) add_ext(&f, 0x50, kind ? perms_d : perms_f, 2);
				add_ext(&f, 0x51, uidgid, 4); add_ext(&f, 0x54, ts, 4);
				add_ext(&f, 0x53, "user", 4); add_ext(&f, 0x52, "grp", 3);
			}
			if (variant == 5) add_ext(&f, 0x41, wts, 24);
			if (variant == 6) add_ext(&f, 0xCC, os9, 12);
			if (variant == 7) add_ext(&f, 0x3F, "comment", 7);
			if (variant & 1) {
				/* common CRC header first in the chain */
				int k;
				for (k = f.next; k > 0; --k) f.ext[k] = f.ext[k - 1];
				f.ext[0].type = 0; f.ext[0].data = (const uint8_t *) "\0\0"; f.ext[0].len = 2; ++f.next;
			}
		}
		f.size = f.packed = kind == 0 ? 5 : 0;
		f.crc = kind == 0 ? ref_crc16(0, DATA5, 5) : 0;
		SEEDLEN[NSEEDS] = ref_hdr_encode(&f, SEEDS[NSEEDS], sizeof SEEDS[0]);
		if (SEEDLEN[NSEEDS] == 0) { printf("HARNESS seed %d/%d/%d not encodable\n", level, kind, variant); continue; }
		if (kind == 0) { memcpy(SEEDS[NSEEDS] + SEEDLEN[NSEEDS], DATA5, 5); }
		++NSEEDS;
	}
	NSEEDS_MAIN = NSEEDS;
	/* special shapes, always part of the quick tier too: entries with a path but no name, under the OS types that have their own
	 * rules for them (Amiga LHA writes directories as nameless empty -lh0- members), with and without data */
	{
		static const uint8_t oss[4] = { 'A', 'U', 'M', 'a' };
		int oi, withdata;
		for (level = 1; level <= 3; ++level)
		for (oi = 0; oi < 4; ++oi)
		for (withdata = 0; withdata < 2; ++withdata) {
			ref_hdr f;
			hdr_init(&f, level, "-lh0-");
			f.os = oss[oi];
			add_ext(&f, 2, "amiga\xff" "dir\xff", 10);
			f.size = f.packed = withdata ? 5 : 0;
			f.crc = withdata ? ref_crc16(0, DATA5, 5) : 0;
			SEEDLEN[NSEEDS] = ref_hdr_encode(&f, SEEDS[NSEEDS], sizeof SEEDS[0]);
			if (SEEDLEN[NSEEDS] == 0) continue;
			if (withdata) memcpy(SEEDS[NSEEDS] + SEEDLEN[NSEEDS], DATA5, 5);
			++NSEEDS;
		}
	}
}

/* a valid follower member */
static uint8_t FOLLOW[128];
static size_t FOLLOWLEN;
static void make_follower(void)
{
	ref_hdr f;
	hdr_init(&f, 1, "-lh0-");
	f.name = (const uint8_t *) "next.txt"; f.name_len = 8;
	f.size = f.packed = 5; f.crc = ref_crc16(0, DATA5, 5);
	FOLLOWLEN = ref_hdr_encode(&f, FOLLOW, sizeof FOLLOW);
	memcpy(FOLLOW + FOLLOWLEN, DATA5, 5); FOLLOWLEN += 5;
}

/* Run the reader over: [lead member] H' [follow].  Verdict from the reference predicate on H' (with what follows).
 * mode 12: report FAIL-but-returned; mode 5: report OK-but-different. */
static void perturbed_case(const uint8_t *hp, size_t hlen, size_t seed_hdr_len, int lead, int follow, int mode)
{
	static uint8_t arc[140000];
	size_t o = 0, hoff, total;
	ref_hdr rh;
	ref_norm n;
	const char *why = "";
	ref_integrity v;
	mem_stream ms;
	LHAInputStream *st;
	LHAReader *rd;
	LHAFileHeader *h;
	int wf = 0, k;
	(void) seed_hdr_len;
	if (lead) { memcpy(arc, FOLLOW, FOLLOWLEN); o = FOLLOWLEN; }
	hoff = o;
	memcpy(arc + o, hp, hlen); o += hlen;
	if (follow == 1) { memcpy(arc + o, FOLLOW, FOLLOWLEN); o += FOLLOWLEN; }
	else if (follow == 2) { memset(arc + o, 0xA5, 40); o += 40; }
	total = o;
	v = ref_hdr_parse(arc + hoff, total - hoff, &rh, &why);
	/* a first header whose signature bytes no longer look like a method is lead-in to the scanner, not a header */
	if (!lead) {
		const uint8_t *b = arc + hoff;
		int sig = total - hoff > 12 && b[2] == '-' && b[6] == '-' && ((b[3] == 'l' && b[4] == 'h') || (b[3] == 'l' && b[4] == 'z' && (b[5] == '4' || b[5] == '5' || b[5] == 's')) || (b[3] == 'p' && b[4] == 'm' && b[5] != 's'));
		if (!sig) v = REF_INT_NOTHEADER;
	}
	if (v == REF_INT_OK) wf = ref_hdr_normalise(&rh, &n);
	st = mem_open(&ms, arc, total, 1);
	rd = lha_reader_new(st);
	if (lead) {
		h = lha_reader_next_file(rd);
		if (!h || !h->filename || strcmp(h->filename, "next.txt")) vf_viol("c12-lead-lost", "the intact leading member was not returned");
	}
	h = lha_reader_next_file(rd);
	vf_step(header_hash(h) ^ (uint64_t) v);
	if (mode == 12) {
		if (v == REF_INT_FAIL && h != NULL) {
			vf_viol("c12-returned", "header failing its own rules (%s) was returned: level=%d path=[%s] filename=[%s]", why, h->header_level, h->path ? h->path : "(null)", h->filename ? h->filename : "(null)");
		}
		if ((v == REF_INT_FAIL || (v == REF_INT_OK && !wf)) && h == NULL) {
			for (k = 0; k < 3; ++k) if (lha_reader_next_file(rd) != NULL) vf_viol("c12-resumed", "iteration resumed after a rejected header (%s)", why);
		}
#ifndef VF_NO_INTERNALS
		if ((v == REF_INT_FAIL || (v == REF_INT_OK && !wf)) && h == NULL) {
			/* the same through the layer underneath (lib/lha_basic_reader.h), which the reader and the tool sit on */
			mem_stream ms2;
			LHAInputStream *st2 = mem_open(&ms2, arc, total, 1);
			LHABasicReader *br = lha_basic_reader_new(st2);
			int guard = 0;
			while (lha_basic_reader_next_file(br) != NULL && ++guard < 8);
			for (k = 0; k < 3; ++k) if (lha_basic_reader_next_file(br) != NULL) { vf_viol("c12-basic-resumed", "the basic reader hands out another entry after its iteration ended at a rejected header (%s)", why); break; }
			lha_basic_reader_free(br);
			lha_input_stream_free(st2);
		}
#endif
		if (v == REF_INT_OK && !wf && h != NULL)
			vf_viol("c12-nameless", "an entry without the required name/path was returned");
	} else {
		if (v == REF_INT_OK && wf) {
			if (!h) vf_viol("c05-perturbed-not-returned", "a header that satisfies every rule was not returned");
			else {
				const char *d = header_diff(h, &n);
				if (d) vf_viol("c05-perturbed-field", "field %s differs from the reference on a perturbed but consistent header", d);
			}
		}
	}
	vf_outcome(vf_mix(header_hash(h), v));
	if (v == REF_INT_OK) ref_norm_free(&n);
	lha_reader_free(rd);
	lha_input_stream_free(st);
}

static void space_integrity(int mode)
{
	int nseeds = atoi(vf_extra("seeds", "1000")), s, lead, follow;
	static const uint32_t lvals[] = { 0, 1, 2, 3, 4, 5, 0x7F, 0xFF, 0x100, 0xFFFF };
	make_seeds();
	make_follower();
	if (nseeds > NSEEDS_MAIN) nseeds = NSEEDS_MAIN;
	for (s = 0; s < nseeds + (NSEEDS - NSEEDS_MAIN); ++s) {
		/* quick tier uses a stride through the seed list so that all levels/kinds are represented; the special shapes always run */
		int si = s >= nseeds ? NSEEDS_MAIN + (s - nseeds) : nseeds < NSEEDS_MAIN ? (s * NSEEDS_MAIN) / nseeds : s;
		const uint8_t *seed = SEEDS[si];
		ref_hdr rh;
		const char *why;
		size_t hl, full, pos;
		if (ref_hdr_parse(seed, sizeof SEEDS[0], &rh, &why) != REF_INT_OK) { printf("HARNESS seed %d does not parse: %s\n", si, why); continue; }
		hl = rh.header_len; full = hl + rh.packed;
		for (lead = 0; lead < 2; ++lead)
		for (follow = 0; follow < 3; ++follow) {
			static uint8_t t[1024];
			unsigned val;
			/* the unperturbed header */
			if (vf_case("seed=%d lead=%d follow=%d unperturbed", si, lead, follow)) perturbed_case(seed, full, hl, lead, follow, mode);
			/* all 255 substitutions at every byte of the header */
			for (pos = 0; pos < hl; ++pos) {
				if (!vf_case("seed=%d lead=%d follow=%d byte %zu of %zu: all 255 substitutions", si, lead, follow, pos, hl)) continue;
				for (val = 1; val < 256; ++val) {
					memcpy(t, seed, full);
					t[pos] ^= (uint8_t) val;
					perturbed_case(t, full, hl, lead, follow, mode);
				}
				vf_nontrivial(vf_mix(si * 4096 + pos, lead * 3 + follow));
			}
			/* every truncation */
			for (pos = 0; pos < full; ++pos) {
				if (!vf_case("seed=%d lead=%d follow=%d truncated at %zu of %zu", si, lead, follow, pos, full)) continue;
				if (follow == 0) perturbed_case(seed, pos, hl, lead, 0, mode);
				vf_nontrivial(vf_mix(si * 4096 + pos, 100 + lead));
			}
			/* length fields set to boundary values: total length, name length, every extended size field */
			{
				size_t fields[REF_MAX_EXT + 4][2];       /* offset, width */
				int nf = 0, k, lv;
				if (rh.level <= 1) { fields[nf][0] = 0; fields[nf++][1] = 1; fields[nf][0] = 21; fields[nf++][1] = 1; }
				else if (rh.level == 2) { fields[nf][0] = 0; fields[nf++][1] = 2; }
				else { fields[nf][0] = 24; fields[nf++][1] = 4; fields[nf][0] = 0; fields[nf++][1] = 2; }
				fields[nf][0] = 7; fields[nf++][1] = 4;        /* compressed size (level 1: holds the extended headers) */
				fields[nf][0] = 20; fields[nf++][1] = 1;       /* level byte */
				/* extended size fields */
				if (rh.level >= 1) {
					size_t szw = rh.level == 3 ? 4 : 2;
					size_t p = rh.level == 1 ? (size_t) seed[0] + 2 - 2 : rh.level == 2 ? 24 : 28;
					for (k = 0; k <= rh.next && nf < REF_MAX_EXT + 4; ++k) {
						fields[nf][0] = p; fields[nf++][1] = szw;
						if (k < rh.next) p += 1 + rh.ext[k].len + szw;
					}
				}
				for (k = 0; k < nf; ++k) {
					uint32_t truev = 0, cand[16];
					int nc = 0, j;
					for (j = (int) fields[k][1] - 1; j >= 0; --j) truev = (truev << 8) | seed[fields[k][0] + j];
					for (lv = 0; lv < 10; ++lv) cand[nc++] = lvals[lv];
					cand[nc++] = truev - 1; cand[nc++] = truev + 1; cand[nc++] = truev + 2; cand[nc++] = 0x80000000u; cand[nc++] = 0xFFFFFFFFu; cand[nc++] = truev - 2;
					if (!vf_case("seed=%d lead=%d follow=%d length field at %zu (width %zu): boundary values", si, lead, follow, fields[k][0], fields[k][1])) continue;
					for (j = 0; j < nc; ++j) {
						uint32_t v = cand[j];
						int b;
						memcpy(t, seed, full);
						for (b = 0; b < (int) fields[k][1]; ++b) t[fields[k][0] + b] = (uint8_t) (v >> (8 * b));
						/* keep the additive checksum consistent so that the length rule itself is what is tested */
						if (rh.level <= 1 && fields[k][0] != 0) {
							unsigned sum = 0; size_t q;
							for (q = 2; q < (size_t) t[0] + 2 && q < full; ++q) sum += t[q];
							t[1] = (uint8_t) sum;
						}
						perturbed_case(t, full, hl, lead, follow, mode);
					}
					vf_nontrivial(vf_mix(si * 4096 + fields[k][0], 200 + lead * 3 + follow));
				}
			}
		}
		}
	/* a level-3 header longer than 65535 bytes (common CRC, name, one 64 KiB extended header): substitutions at the first 120 and
	 * the last 60 bytes and at every 509th byte in between - the checks must cover all of it, not its length modulo 2^16 */
	if (!atoi(vf_extra("pairs", "0"))) {
		static uint8_t big[70000], filler[65536], t[70000];
		ref_hdr f, rh2;
		const char *why2;
		size_t hl, pos;
		unsigned i;
		for (i = 0; i < sizeof filler; ++i) filler[i] = (uint8_t) (i * 7 + 3);
		hdr_init(&f, 3, "-lh0-");
		add_ext(&f, 0, "\0\0", 2);
		add_ext(&f, 1, "big.bin", 7);
		add_ext(&f, 0x3F, filler, sizeof filler);
		f.size = f.packed = 5; f.crc = ref_crc16(0, DATA5, 5);
		hl = ref_hdr_encode(&f, big, sizeof big);
		/* the last two bytes of the long extended header are chosen so that the CRC of the whole header equals the CRC of its
		 * first (length mod 2^16) bytes: a check that covers only that much still accepts the intact header, and then has to
		 * show on the substitutions that it does not cover the rest */
		if (hl > 65536 + 8) {
			size_t k = hl & 0xFFFF, p2 = hl - 4 - 2, q;
			uint16_t S, T, c;
			unsigned a, b, found = 0;
			/* position of the stored CRC: the two bytes which, when zeroed, make the CRC of the whole equal to them */
			size_t fld = 0;
			memcpy(t, big, hl);
			for (q = 20; q < 64 && !fld; ++q) {
				uint8_t s0 = t[q], s1 = t[q + 1];
				t[q] = t[q + 1] = 0;
				if (ref_crc16(0, t, hl) == (uint16_t) (s0 | (s1 << 8))) fld = q; else { t[q] = s0; t[q + 1] = s1; }
			}
			if (!fld || fld + 2 > k) k = 0;
			if (k) {
				T = ref_crc16(0, t, k);
				S = ref_crc16(0, t, p2);
				for (a = 0; a < 256 && !found; ++a)
				for (b = 0; b < 256 && !found; ++b) {
					uint8_t tail[6] = { (uint8_t) a, (uint8_t) b, t[p2 + 2], t[p2 + 3], t[p2 + 4], t[p2 + 5] };
					c = ref_crc16(S, tail, 6);
					if (c == T) { filler[sizeof filler - 2] = (uint8_t) a; filler[sizeof filler - 1] = (uint8_t) b; found = 1; }
				}
				if (found) hl = ref_hdr_encode(&f, big, sizeof big);
				else printf("NOTE long-seed=no byte pair makes the two CRCs equal\n");
			}
		}
		if (!hl || ref_hdr_parse(big, hl + 5, &rh2, &why2) != REF_INT_OK) printf("HARNESS the long level-3 seed is not accepted by the reference (%s)\n", hl ? why2 : "not encodable");
		else {
			memcpy(big + hl, DATA5, 5);
			if (vf_case("long level-3 header (%zu bytes) unperturbed", hl)) { perturbed_case(big, hl + 5, hl, 0, 1, mode); perturbed_case(big, hl + 5, hl, 1, 0, mode); }
			for (pos = 0; pos < hl; pos += (pos < 120 || pos + 60 >= hl) ? 1 : (pos + 509 + 60 < hl ? 509 : hl - 60 - pos)) {
				static const uint8_t xv[3] = { 0x01, 0x80, 0xFF };
				if (!vf_case("long level-3 header (%zu bytes) byte %zu: 3 substitutions", hl, pos)) continue;
				for (i = 0; i < 3; ++i) {
					memcpy(t, big, hl + 5);
					t[pos] ^= xv[i];
					perturbed_case(t, hl + 5, hl, 0, 1, mode);
				}
				vf_nontrivial(vf_mix(pos, 31337));
			}
		}
	}
	for (s = 0; s < nseeds + (NSEEDS - NSEEDS_MAIN) && atoi(vf_extra("pairs", "0")); ++s) {
		int si = s >= nseeds ? NSEEDS_MAIN + (s - nseeds) : nseeds < NSEEDS_MAIN ? (s * NSEEDS_MAIN) / nseeds : s;
		const uint8_t *seed = SEEDS[si];
		ref_hdr rh;
		const char *why;
		size_t hl, full;
		if (ref_hdr_parse(seed, sizeof SEEDS[0], &rh, &why) != REF_INT_OK) continue;
		hl = rh.header_len; full = hl + rh.packed;
		/* two bytes changed at once (pairs=1): every pair of header positions x 15 x 15 replacement values, the additive checksum
		 * of levels 0/1 re-made for every other combination so that the second rule in line is what decides */
		if (atoi(vf_extra("pairs", "0"))) {
			static const uint8_t qv[15] = { 0x00, 0x01, 0x02, 0x03, 0x04, 0x1F, 0x20, 0x2D, 0x2F, 0x5C, 0x7C, 0x7F, 0x80, 0xFE, 0xFF };
			static uint8_t t[1024];
			size_t p1, p2;
			int a, b;
			for (p1 = 0; p1 < hl; ++p1) {
				if (!vf_case("seed=%d byte %zu of %zu and every later byte: 15 x 15 replacement values", si, p1, hl)) continue;
				for (p2 = p1 + 1; p2 < hl; ++p2)
				for (a = 0; a < 15; ++a)
				for (b = 0; b < 15; ++b) {
					if (qv[a] == seed[p1] || qv[b] == seed[p2]) continue;
					memcpy(t, seed, full);
					t[p1] = qv[a]; t[p2] = qv[b];
					if (rh.level <= 1 && ((a + b) & 1) && p1 > 1) {
						unsigned sum = 0; size_t q;
						for (q = 2; q < (size_t) t[0] + 2 && q < full; ++q) sum += t[q];
						t[1] = (uint8_t) sum;
					}
					perturbed_case(t, full, hl, 0, 1, mode);
				}
				vf_nontrivial(vf_mix(si * 4096 + p1, 999));
			}
		}
	}
}

/* ====================================================================== C05: chains and sweeps */

typedef struct { int type; const uint8_t *data; size_t len; } ext_opt;

static void space_chains(void)
{
	static const uint8_t wts[24] = { 0x11, 0x22, 0x33, 0x44, 0x55, 0x66, 0x77, 0x08, 9, 10, 11, 12, 13, 14, 15, 16, 17, 18, 19, 20, 21, 22, 23, 0x80 };
	static const uint8_t os9[12] = { 1, 2, 3, 4, 5, 6, 7, 0xA3, 0x00, 9, 10, 11 };
	static const ext_opt opts[12] = {
		{ 0x00, (const uint8_t *) "\0\0", 2 }, { 0x01, (const uint8_t *) "Name.TXT", 8 }, { 0x02, (const uint8_t *) "Dir\xffSub\xff", 8 },
		{ 0x41, wts, 24 }, { 0x50, (const uint8_t *) "\xa4\x81", 2 }, { 0x51, (const uint8_t *) "\x34\x12\x78\x56", 4 },
		{ 0x52, (const uint8_t *) "group", 5 }, { 0x53, (const uint8_t *) "user", 4 }, { 0x54, (const uint8_t *) "\x01\x02\x03\x04", 4 },
		{ 0xCC, os9, 12 }, { 0x3F, (const uint8_t *) "a comment", 9 }, { 0x77, (const uint8_t *) "", 0 },
	};
	/* second forms of the name-bearing headers so that "later overrides earlier" is visible */
	static const ext_opt alt[12] = {
		{ 0x00, (const uint8_t *) "\0\0", 2 }, { 0x01, (const uint8_t *) "other", 5 }, { 0x02, (const uint8_t *) "x\xff", 2 },
		{ 0x41, wts + 1, 23 }, { 0x50, (const uint8_t *) "\xff\x41", 2 }, { 0x51, (const uint8_t *) "\x01\x00", 2 },
		{ 0x52, (const uint8_t *) "g2", 2 }, { 0x53, (const uint8_t *) "u2", 2 }, { 0x54, (const uint8_t *) "\x09\x09\x09", 3 },
		{ 0xCC, os9, 11 }, { 0x3F, (const uint8_t *) "", 0 }, { 0x77, (const uint8_t *) "zz", 2 },
	};
	int maxlen = atoi(vf_extra("maxlen", "3"));
	int level, kind, len, i, os_i;
	static const uint8_t oss[3] = { 'U', 'M', 'K' };
	for (level = 1; level <= 3; ++level)
	for (kind = 0; kind < 3; ++kind)
	for (os_i = 0; os_i < 3; ++os_i)
	for (len = 0; len <= maxlen; ++len) {
		int idx[6];
		if (os_i == 2 && len > 2) continue;
		memset(idx, 0, sizeof idx);
		for (;;) {
			ref_hdr f;
			int seen[12];
			if (vf_case("chain level=%d kind=%d os=%c types=%d.%d.%d.%d/%d", level, kind, oss[os_i], idx[0], idx[1], idx[2], idx[3], len)) {
				memset(seen, 0, sizeof seen);
				hdr_init(&f, level, kind == 0 ? "-lh0-" : "-lhd-");
				f.os = oss[os_i];
				if (level == 1) { f.name = (const uint8_t *) (kind == 0 ? "A\\B.C" : kind == 1 ? "D\\" : "L|T"); f.name_len = strlen((const char *) f.name); }
				else {
					/* base name so that the entry is well-formed whatever the chain holds */
					if (kind == 0) add_ext(&f, 1, "base.bin", 8);
					else if (kind == 1) add_ext(&f, 2, "basedir\xff", 8);
					else add_ext(&f, 1, "ln|tg", 5);
				}
				if (kind == 2) add_ext(&f, 0x50, "\xff\xa1", 2);
				for (i = 0; i < len; ++i) {
					const ext_opt *o = seen[idx[i]] ? &alt[idx[i]] : &opts[idx[i]];
					seen[idx[i]] = 1;
					add_ext(&f, o->type, o->data, o->len);
				}
				f.size = f.packed = kind == 0 ? 5 : 0;
				f.crc = kind == 0 ? ref_crc16(0, DATA5, 5) : 0;
				check_record(&f, DATA5, f.packed, 2 | 4, "c05");
				if (len) vf_nontrivial(vf_mix(level * 9 + kind * 3 + os_i, (uint64_t) idx[0] | (idx[1] << 4) | (idx[2] << 8) | (idx[3] << 12) | (len << 16)));
			}
			for (i = len - 1; i >= 0; --i) { if (++idx[i] < 12) break; idx[i] = 0; }
			if (i < 0) break;
		}
	}
}

/* level-0 extended areas: every length 1..26 x first byte (the tool the area claims to come from) x contents that satisfy or
 * miss the recognition rules by one byte; also level 1 with the same bytes between OS type and first extended size */
static void sweep_areas(void)
{
	static const uint8_t firsts[] = { 'U', 'K', '9', 'M', 0x00, 'm', 0xFF };
	unsigned fi, len, variant, level;
	for (level = 0; level <= 1; ++level)
	for (fi = 0; fi < sizeof firsts; ++fi)
	for (len = 1; len <= 26; ++len)
	for (variant = 0; variant < 6; ++variant) {
		uint8_t area[32];
		ref_hdr f;
		unsigned i;
		if (!vf_case("level-%u header with an extended area of %u bytes starting with %02x, contents variant %u", level, len, firsts[fi], variant)) continue;
		for (i = 0; i < sizeof area; ++i) area[i] = variant == 1 ? 0xFF : variant == 2 ? (uint8_t) (i * 37 + 1) : 0;
		area[0] = firsts[fi];
		if (variant >= 3) {
			/* the OS-9 shape: 0xcc at 9 and bytes 1,2 repeated at 17,18 - complete (3), marker only (4), repeat broken (5) */
			area[1] = 0x13; area[2] = 0x01; area[9] = 0xCC; area[17] = 0x13; area[18] = variant == 5 ? 0x02 : 0x01;
			if (variant == 4) { area[17] = 0x55; }
		}
		if (variant == 0 && len >= 12) { area[1] = 0; area[2] = 0x00; area[3] = 0x5C; area[4] = 0x3D; area[5] = 0x4B; area[len - 6] = 0xA4; area[len - 5] = 0x81; area[len - 4] = 0xE8; area[len - 3] = 3; area[len - 2] = 0xE9; area[len - 1] = 3; }
		hdr_init(&f, (int) level, "-lh0-");
		f.os = level ? firsts[fi] : 0;
		f.name = (const uint8_t *) "AREA.BIN"; f.name_len = 8;
		f.area = area; f.area_len = len;
		f.size = f.packed = 5; f.crc = ref_crc16(0, DATA5, 5);
		check_record(&f, DATA5, 5, 2 | 4, "c05");
		vf_nontrivial(vf_mix(fi * 32 + len, variant * 2 + level) + 3);
	}
}

/* symbolic links whose 'name|target' is split over the path and file-name headers in every possible way, including targets
 * that end in a separator (the whole string then sits in the path header and the file-name header is empty or absent) */
static void sweep_links(void)
{
	static const char *joined[] = { "mylink|some/dir/", "d/mylink|../", "l|/", "a/b/l|t", "l|a/b", "x|y/", "d/|t", "|t", "l|",
	                                /* targets that contain '|' themselves: the split is at the first one */
	                                "lnk|a|b", "d/l|t|u", "l||t", "l|a/b|c", "l|t|" };
	unsigned ji, level, os_i, form;
	static const uint8_t oss[3] = { 'U', 'M', 'm' };
	static const uint8_t perm[2] = { 0xFF, 0xA1 };
	for (ji = 0; ji < sizeof joined / sizeof *joined; ++ji)
	for (level = 2; level <= 3; ++level)
	for (os_i = 0; os_i < 3; ++os_i)
	for (form = 0; form < 3; ++form) {
		const char *j = joined[ji];
		size_t L = strlen(j), cut, i;
		const char *last = strrchr(j, '/');
		static uint8_t pth[64];
		ref_hdr f;
		/* the archiver's split: everything up to the last '/' is the path header, the rest the name header */
		cut = last ? (size_t) (last - j) + 1 : 0;
		if (!vf_case("symlink '%s' level %u os %c: path header holds %zu bytes, name header %s", j, level, oss[os_i], cut, form == 0 ? "holds the rest" : form == 1 ? "is empty" : "is absent")) continue;
		if (form > 0 && cut != L) continue;         /* an empty or absent name header only when nothing is left for it */
		hdr_init(&f, (int) level, "-lhd-");
		f.os = oss[os_i];
		for (i = 0; i < cut; ++i) pth[i] = j[i] == '/' ? 0xFF : (uint8_t) j[i];
		if (cut) add_ext(&f, 2, pth, cut);
		if (form == 0 && L > cut) add_ext(&f, 1, j + cut, L - cut);
		else if (form == 1) add_ext(&f, 1, "", 0);
		add_ext(&f, 0x50, perm, 2);
		check_record(&f, DATA5, 0, 1 | 2, "c05");
		vf_nontrivial(vf_mix(ji * 16 + level * 4 + os_i, form) + 11);
	}
}

static void space_sweeps(void)
{
	static const uint32_t sizes[] = { 0, 1, 5, 0xFFFF, 0x10000, 0x7FFFFFFF, 0x80000000u, 0xFFFFFFFFu };
	static const char *names[] = { "UPPER.TXT", "MiXeD.TxT", "lower.txt", "\x83\x65\x83\x58.TXT", "DIR\\SUB\\UP.BIN", "Dir\\up.bin", "A", "12345.678",
	                               "..cache\\F.TXT", "a\\...\\b.c", "..\\UP\\..x\\Y", ".hidden\\..\\Z",
	                               /* directory components that end in a byte of the Shift-JIS lead ranges (Latin-1 accented letters) */
	                               "caf\xe9\\menu.txt", "src\\men\x81\\main.c", "\x83\\X", "A\x9f\\B\xfc\\C" };
	static uint8_t longname[1 << 20];
	int level, os, ni, k;
	unsigned si;
	ref_hdr f;
	for (k = 0; k < (1 << 20); ++k) longname[k] = (uint8_t) ('a' + k % 26);
	/* (1) every OS type x name case classes x levels */
	for (level = 0; level <= 3; ++level)
	for (os = 0; os < 256; ++os)
	for (ni = 0; ni < 16; ++ni) {
		if (level == 0 && os != 0) continue;
		if (!vf_case("sweep os=%d level=%d name=%s", os, level, names[ni])) continue;
		hdr_init(&f, level, "-lh5-");
		f.os = (uint8_t) os;
		if (level <= 1) { f.name = (const uint8_t *) names[ni]; f.name_len = strlen(names[ni]); }
		else {
			const char *bs = strrchr(names[ni], '\\');
			static uint8_t pth[64];
			if (bs) {
				size_t pl = (size_t) (bs - names[ni]) + 1, q;
				memcpy(pth, names[ni], pl);
				for (q = 0; q < pl; ++q) if (pth[q] == '\\') pth[q] = 0xFF;
				add_ext(&f, 2, pth, pl);
				add_ext(&f, 1, bs + 1, strlen(bs + 1));
			} else add_ext(&f, 1, names[ni], strlen(names[ni]));
		}
		f.size = 100; f.packed = 5; f.crc = 0x1234;
		check_record(&f, DATA5, 5, 2, "c05");
		vf_nontrivial(vf_mix(os * 32 + level * 8 + ni, 1));
	}
	/* (2) sizes and times */
	for (level = 0; level <= 3; ++level)
	for (si = 0; si < 8; ++si)
	for (k = 0; k < 8; ++k) {
		static const uint32_t dos[] = { 0, 0x00210000u /* 1980-01-01 00:00:00 */, 0x0021001Fu, 0x3C21A000u, 0x7F9FBF7Du /* 2043-12-31 23:59:58 */,
		                                0x8021BF7Du /* 2044-01-01 */, 0xFB9FBF7Du /* 2105-12-31 */, 0x58D9A65Au };
		if (!vf_case("sweep level=%d size=%u packed=%u time#%d", level, sizes[si], sizes[(si + k) % 8], k)) continue;
		hdr_init(&f, level, "-lh5-");
		f.os = 'M';
		if (level <= 1) { f.name = (const uint8_t *) "f.bin"; f.name_len = 5; } else add_ext(&f, 1, "f.bin", 5);
		f.size = sizes[si]; f.packed = sizes[(si + k) % 8];
		if (level == 1 && f.packed > 0xFFFFFF00u) f.packed = 0xFFFFFF00u;   /* room for the extended bytes in the 32-bit field */
		f.time_raw = level <= 1 ? dos[k] : sizes[k];
		f.crc = (uint16_t) (si * 4099 + k);
		check_record(&f, DATA5, 5, 2, "c05");
		vf_nontrivial(vf_mix(level * 64 + si * 8 + k, 2));
	}
	/* (3) name lengths: every length 0..limit for level 0/1; boundary lengths for 2 and 3 */
	for (level = 0; level <= 1; ++level)
	for (k = 0; k <= (level == 0 ? 233 : 230); ++k) {
		if (!vf_case("sweep level=%d in-header name of %d bytes", level, k)) continue;
		hdr_init(&f, level, "-lh0-");
		f.name = longname; f.name_len = (size_t) k;
		f.size = f.packed = 5; f.crc = ref_crc16(0, DATA5, 5);
		check_record(&f, DATA5, 5, 2 | 4, "c05");
		vf_nontrivial(vf_mix(level * 1000 + k, 3));
	}
	{
		static const size_t l2[] = { 1, 2, 254, 255, 256, 257, 1000, 65000, 65490 };
		static const size_t l3[] = { 1, 255, 256, 65535, 65536, 100000, 1048000, 1048500 };
		for (level = 2; level <= 3; ++level)
		for (k = 0; k < (level == 2 ? 9 : 8); ++k)
		for (ni = 0; ni < 2; ++ni) {
			size_t L = level == 2 ? l2[k] : l3[k];
			if (!vf_case("sweep level=%d %s of %zu bytes", level, ni ? "path" : "name", L)) continue;
			hdr_init(&f, level, "-lh0-");
			if (ni) { add_ext(&f, 2, longname, L); add_ext(&f, 1, "n", 1); } else add_ext(&f, 1, longname, L);
			f.size = f.packed = 5; f.crc = ref_crc16(0, DATA5, 5);
			check_record(&f, DATA5, 5, 2 | 4, "c05");
			vf_nontrivial(vf_mix(level * 1000 + k * 2 + ni, 4));
		}
	}
	/* (4) permissions, uid/gid, OS-9 words */
	for (level = 0; level <= 3; ++level)
	for (k = 0; k < 65536; k += (k < 0x200 ? 1 : 257)) {
		uint8_t pb[2] = { (uint8_t) k, (uint8_t) (k >> 8) };
		uint8_t area[12] = { 'U', 0, 1, 2, 3, 4, 0, 0, 0x34, 0x12, 0x78, 0x56 };
		uint8_t ug[4] = { (uint8_t) k, (uint8_t) (k >> 8), (uint8_t) (k * 3), (uint8_t) ((k * 3) >> 8) };
		int osk;
		for (osk = 0; osk < 2; ++osk) {
			if ((k & 0170000) == 0120000) continue;              /* link entries are covered by the chain space */
			if (!vf_case("sweep level=%d perms=%o os=%c", level, k, osk ? 'K' : 'U')) continue;
			hdr_init(&f, level, "-lh0-");
			f.os = osk ? 'K' : 'U';
			if (level == 0) { area[0] = osk ? 'K' : 'U'; area[6] = pb[0]; area[7] = pb[1]; f.area = area; f.area_len = 12; f.name = (const uint8_t *) "p.bin"; f.name_len = 5; }
			else {
				if (level == 1) { f.name = (const uint8_t *) "p.bin"; f.name_len = 5; } else add_ext(&f, 1, "p.bin", 5);
				add_ext(&f, 0x50, pb, 2);
				add_ext(&f, 0x51, ug, 4);
			}
			f.size = f.packed = 5; f.crc = ref_crc16(0, DATA5, 5);
			check_record(&f, DATA5, 5, 2 | 4, "c05");
			vf_nontrivial(vf_mix(level * 70000 + k, 5 + osk));
		}
	}
	/* (5) level-0 extended areas: Unix / OS-9/68k of every length 12..40 and minor byte, OS-9 (with and without the marker), -pm?- comments */
	for (k = 1; k <= 40; ++k)
	for (ni = 0; ni < 6; ++ni) {
		uint8_t area[48];
		int q;
		const char *method = ni == 5 ? "-pm2-" : "-lh0-";
		for (q = 0; q < 48; ++q) area[q] = (uint8_t) (q * 7 + 1);
		area[0] = ni == 0 ? 'U' : ni == 1 ? 'K' : ni == 2 ? '9' : ni == 3 ? '9' : ni == 4 ? 'M' : 'U';
		area[1] = ni == 4 ? 0 : (k % 5 == 0 ? 1 : 0);
		if (ni == 2) { area[1] = 0x2B; area[2] = 0; area[9] = 0xCC; area[17] = area[1]; area[18] = area[2]; }
		if (ni == 3) { area[9] = 0xCC; area[17] = 0x77; }
		if (!vf_case("sweep level=0 extended area kind=%d length=%d", ni, k)) continue;
		hdr_init(&f, 0, method);
		f.name = (const uint8_t *) "AREA.BIN"; f.name_len = 8;
		f.area = area; f.area_len = (size_t) k;
		f.size = f.packed = 5; f.crc = ref_crc16(0, DATA5, 5);
		check_record(&f, DATA5, 5, 2 | (ni == 5 ? 0 : 4), "c05");
		vf_nontrivial(vf_mix(k * 8 + ni, 7));
	}
	/* (6) method rewrites: LHARK, Amiga directories */
	for (level = 0; level <= 3; ++level)
	for (os = 0; os < 4; ++os)
	for (ni = 0; ni < 4; ++ni)
	for (k = 0; k < 2; ++k) {
		static const char *ms[4] = { "-lh7-", "-lh0-", "-lhd-", "-lh6-" };
		static const uint8_t oss[4] = { ' ', 'A', 'U', 'M' };
		if (!vf_case("sweep level=%d os=%c method=%s size=%d", level, oss[os], ms[ni], k)) continue;
		hdr_init(&f, level, ms[ni]);
		f.os = oss[os];
		if (level <= 1) { f.name = (const uint8_t *) "dir\\"; f.name_len = 4; } else add_ext(&f, 2, "dir\xff", 4);
		if (level >= 2 && ni != 1 && ni != 2) add_ext(&f, 1, "n.x", 3);
		f.size = (uint32_t) k; f.packed = 0; f.crc = 0;
		check_record(&f, DATA5, 0, 2, "c05");
		vf_nontrivial(vf_mix(level * 64 + os * 16 + ni * 2 + k, 8));
	}
}

int main(int argc, char **argv)
{
	vf_init(argc, argv);
	if (!strcmp(VF.space, "paths")) space_paths();
	else if (!strcmp(VF.space, "longpaths")) space_longpaths();
	else if (!strcmp(VF.space, "integrity")) space_integrity(12);
	else if (!strcmp(VF.space, "perturbed-ok")) space_integrity(5);
	else if (!strcmp(VF.space, "chains")) space_chains();
	else if (!strcmp(VF.space, "sweeps")) { space_sweeps(); sweep_areas(); sweep_links(); }
	else { fprintf(stderr, "unknown space %s\n", VF.space); return 2; }
	vf_done();
	return 0;
}
