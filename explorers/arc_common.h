#define _GNU_SOURCE
/* helpers shared by the archive-level explorers (E2/E3): memory input streams, header comparison */
#ifndef ARC_COMMON_H
#define ARC_COMMON_H
#include "common.h"
#include "lha_reader.h"
#include "lha_file_header.h"
#include "lha_input_stream.h"
#include "ref_header.h"
#include "ref_crc16.h"

typedef struct {
	const uint8_t *p;
	size_t n, pos;
	int skip_kind;        /* 0: no skip callback; 1: skip fails past the end; 2: seek-like skip always succeeds */
	/* counters for the progress monitors */
	unsigned long reads, zero_reads, skips, bytes;
	/* answer deviations (E3): NULL = default answers */
	int (*answer)(void *u, size_t asked, size_t avail);
	void *answer_u;
} mem_stream;

static int mem_read(void *handle, void *buf, size_t len)
{
	mem_stream *m = (mem_stream *) handle;
	size_t k = m->n - m->pos;
	++m->reads;
	if (k > len) k = len;
	if (m->answer) {
		int a = m->answer(m->answer_u, len, k);
		if (a < 0) return -1;
		if ((size_t) a < k) k = (size_t) a;
	}
	if (k == 0) ++m->zero_reads;
	memcpy(buf, m->p + m->pos, k);
	m->pos += k;
	m->bytes += k;
	return (int) k;
}

static int mem_skip(void *handle, size_t bytes)
{
	mem_stream *m = (mem_stream *) handle;
	++m->skips;
	if (m->skip_kind == 1) {
		if (bytes > m->n - m->pos) { m->pos = m->n; return 0; }
		m->pos += bytes;
		return 1;
	}
	/* seek-like: position may pass the end */
	if (bytes > m->n - m->pos) m->pos = m->n; else m->pos += bytes;
	return 1;
}

static const LHAInputStreamType MEM_NOSKIP = { mem_read, NULL, NULL };
static const LHAInputStreamType MEM_SKIP = { mem_read, mem_skip, NULL };

static LHAInputStream *mem_open(mem_stream *m, const uint8_t *p, size_t n, int skip_kind)
{
	memset(m, 0, sizeof *m);
	m->p = p; m->n = n; m->skip_kind = skip_kind;
	return lha_input_stream_new(skip_kind ? &MEM_SKIP : &MEM_NOSKIP, m);
}

static int str_eq(const char *a, int has, const char *b)
{
	if (!has) return a == NULL;
	return a != NULL && strcmp(a, b) == 0;
}

/* compare a returned header with the reference normalisation; returns NULL or the name of the first differing field */
static const char *header_diff(const LHAFileHeader *h, const ref_norm *n)
{
	if (!str_eq(h->path, n->has_path, n->path)) return "path";
	if (!str_eq(h->filename, n->has_filename, n->filename)) return "filename";
	if (!str_eq(h->symlink_target, n->has_target, n->target)) return "symlink_target";
	if (memcmp(h->compress_method, n->method, 5) || h->compress_method[5]) return "compress_method";
	if (h->compressed_length != n->compressed_length) return "compressed_length";
	if (h->length != n->length) return "length";
	if (h->header_level != n->level) return "header_level";
	if (h->os_type != n->os_type) return "os_type";
	if (h->crc != n->crc) return "crc";
	if (h->timestamp != n->timestamp) return "timestamp";
	if ((h->extra_flags & 0x1F) != n->extra_flags) return "extra_flags";
	if ((n->extra_flags & 1) && h->unix_perms != n->unix_perms) return "unix_perms";
	if ((n->extra_flags & 2) && (h->unix_uid != n->unix_uid || h->unix_gid != n->unix_gid)) return "unix_uid_gid";
	if ((n->extra_flags & 16) && h->os9_perms != n->os9_perms) return "os9_perms";
	if (!str_eq(h->unix_username, n->has_user, n->user)) return "unix_username";
	if (!str_eq(h->unix_group, n->has_group, n->group)) return "unix_group";
	if ((n->extra_flags & 4) && h->common_crc != n->common_crc) return "common_crc";
	if ((n->extra_flags & 8) && (h->win_creation_time != n->win_creation || h->win_modification_time != n->win_modification
	                             || h->win_access_time != n->win_access)) return "windows_timestamps";
	return NULL;
}

/* C11 invariant on a returned header */
static const char *path_invariant(const LHAFileHeader *h)
{
	if (h->filename && strchr(h->filename, '/')) return "filename contains '/'";
	if (h->path) {
		const char *p = h->path;
		if (*p == '/') ++p;
		while (*p) {
			const char *s = strchr(p, '/');
			size_t cl;
			if (!s) break;                   /* trailing piece without '/' */
			cl = (size_t) (s - p);
			if (cl == 0) return "empty path component";
			if (cl == 1 && p[0] == '.') return "'.' path component";
			if (cl == 2 && p[0] == '.' && p[1] == '.') return "'..' path component";
			p = s + 1;
		}
	}
	return NULL;
}

/* chunking-independent byte stream hash */
static uint64_t bytes_hash(const uint8_t *p, size_t n, uint64_t h)
{
	size_t i;
	if (h == 0) h = 0xcbf29ce484222325ULL;
	for (i = 0; i < n; ++i) { h ^= p[i]; h *= 0x100000001b3ULL; }
	return h;
}

static uint64_t header_hash(const LHAFileHeader *h)
{
	uint64_t x = 17;
	if (!h) return 3;
	if (h->path) x = vf_hash(h->path, strlen(h->path), x);
	if (h->filename) x = vf_hash(h->filename, strlen(h->filename), x ^ 5);
	if (h->symlink_target) x = vf_hash(h->symlink_target, strlen(h->symlink_target), x ^ 9);
	x = vf_hash(h->compress_method, 5, x);
	x = vf_mix(x, h->compressed_length ^ ((uint64_t) h->length << 32));
	x = vf_mix(x, ((uint64_t) h->timestamp << 16) ^ h->crc ^ ((uint64_t) h->os_type << 56) ^ ((uint64_t) h->header_level << 48));
	x = vf_mix(x, ((uint64_t) h->unix_perms << 32) ^ (h->unix_uid << 16) ^ h->unix_gid ^ ((uint64_t) h->extra_flags << 50));
	return x;
}
#endif
