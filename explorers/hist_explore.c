/* E3: exhaustive API histories over small generated archives against the reference reader model
 * (DESIGN.md appendix C).  Spaces: histories (C15), prefixes (C20: every prefix then free, leak balance),
 * faults (C20: k-th allocation fails). */
#include "arc_common.h"
#include "arcbuild.h"
#include <sys/stat.h>
#include <ftw.h>
#include <malloc.h>
#include <errno.h>

/* ------------------------------------------------------------------ allocation / handle accounting */

static long ALLOC_BAL, ALLOC_COUNT, FAIL_AT = -1, FAIL_AT2 = -1, FILES_OPEN;
static int TRACK;
static int FAULT_FIRED;
void *__real_malloc(size_t n);
void *__real_calloc(size_t a, size_t b);
void *__real_realloc(void *p, size_t n);
void __real_free(void *p);
char *__real_strdup(const char *s);
FILE *__real_fopen(const char *p, const char *m);
FILE *__real_fdopen(int fd, const char *m);
int __real_fclose(FILE *f);

static int alloc_should_fail(void)
{
	if (!TRACK) return 0;
	if (ALLOC_COUNT == FAIL_AT || ALLOC_COUNT == FAIL_AT2) { ++ALLOC_COUNT; FAULT_FIRED = 1; return 1; }
	++ALLOC_COUNT;
	return 0;
}
void *__wrap_malloc(size_t n) { void *p; if (alloc_should_fail()) return NULL; p = __real_malloc(n); if (p && TRACK) ++ALLOC_BAL; return p; }
void *__wrap_calloc(size_t a, size_t b) { void *p; if (alloc_should_fail()) return NULL; p = __real_calloc(a, b); if (p && TRACK) ++ALLOC_BAL; return p; }
void *__wrap_realloc(void *q, size_t n)
{
	void *p;
	if (alloc_should_fail()) return NULL;
	p = __real_realloc(q, n);
	if (TRACK && !q && p) ++ALLOC_BAL;
	return p;
}
void __wrap_free(void *p) { if (p && TRACK) --ALLOC_BAL; __real_free(p); }
char *__wrap_strdup(const char *s) { char *p; if (alloc_should_fail()) return NULL; p = __real_strdup(s); if (p && TRACK) ++ALLOC_BAL; return p; }
FILE *__wrap_fopen(const char *p, const char *m) { FILE *f = __real_fopen(p, m); if (f && TRACK) ++FILES_OPEN; return f; }
FILE *__wrap_fdopen(int fd, const char *m) { FILE *f = __real_fdopen(fd, m); if (f && TRACK) ++FILES_OPEN; return f; }
int __wrap_fclose(FILE *f) { if (TRACK) --FILES_OPEN; return __real_fclose(f); }

static int count_fds(void)
{
	int n = 0, fd;
	for (fd = 3; fd < 64; ++fd) if (fcntl(fd, F_GETFD) != -1) ++n;
	return n;
}

/* ------------------------------------------------------------------ archives */

static int STREAM_SKIP_KIND = 1;
static ab_arc ARCS[12];
static int NARCS;
static int TRUNCATED_LAST[12];

static void build_archives(void)
{
	ab_arc *a;
	NARCS = 0;
	/* 0: three files of different methods */
	a = &ARCS[NARCS++]; ab_init(a, 1 << 18);
	ab_add(a, 1, 0, "-lh5-", "", "a.txt", NULL, 900, 1, 1, 0100644, 1262304000);
	ab_add(a, 2, 0, "-lz5-", "", "b.bin", NULL, 5000, 2, 1, 0100600, 1262304000);
	ab_add(a, 0, 0, "-lh1-", "", "C.DAT", NULL, 300, 3, 0, 0, 0);
	/* 1: two sibling directories with files (a/ and ab/: prefix confusion) */
	a = &ARCS[NARCS++]; ab_init(a, 1 << 18);
	ab_add(a, 2, 1, "-lhd-", "a/", "", NULL, 0, 0, 1, 040755, 1262304000);
	ab_add(a, 2, 0, "-lh0-", "a/", "f", NULL, 40, 4, 1, 0100644, 1262304000);
	ab_add(a, 2, 1, "-lhd-", "ab/", "", NULL, 0, 0, 1, 040700, 1262304001);
	ab_add(a, 2, 0, "-lh5-", "ab/", "g", NULL, 600, 5, 1, 0100644, 1262304000);
	/* 2: nested directories then a top-level file */
	a = &ARCS[NARCS++]; ab_init(a, 1 << 18);
	ab_add(a, 1, 1, "-lhd-", "d/", "", NULL, 0, 0, 1, 040755, 1262304000);
	ab_add(a, 1, 1, "-lhd-", "d/e/", "", NULL, 0, 0, 1, 040555, 1262304002);
	ab_add(a, 1, 0, "-lzs-", "d/e/", "deep", NULL, 700, 6, 1, 0100444, 1262304000);
	ab_add(a, 1, 0, "-pm2-", "", "top", NULL, 1500, 7, 1, 0100644, 1262304000);
	/* 3: safe link, dangerous links of different and equal path lengths, files */
	a = &ARCS[NARCS++]; ab_init(a, 1 << 18);
	ab_add(a, 2, 0, "-lh0-", "", "f", NULL, 10, 8, 1, 0100644, 1262304000);
	ab_add(a, 2, 2, "-lhd-", "", "safe", "f", 0, 0, 1, 0120777, 1262304000);
	ab_add(a, 2, 2, "-lhd-", "", "dang1", "../x", 0, 0, 1, 0120777, 1262304000);
	ab_add(a, 2, 2, "-lhd-", "", "d2", "/abs", 0, 0, 1, 0120777, 1262304000);
	ab_add(a, 2, 2, "-lhd-", "", "dang3", "a/../../y", 0, 0, 1, 0120777, 1262304000);
	ab_add(a, 2, 0, "-lh6-", "", "g", NULL, 2000, 9, 1, 0100644, 1262304000);
	/* 4: MacBinary member, unknown method, empty member */
	a = &ARCS[NARCS++]; ab_init(a, 1 << 18);
	ab_add_mac(a, 2, "Mac File", 300, 30, 1, 1262304000);
	ab_add(a, 1, 0, "-lh9-", "", "unknown", NULL, 50, 10, 0, 0, 0);
	ab_add(a, 0, 0, "-lh0-", "", "EMPTY", NULL, 0, 0, 0, 0, 0);
	ab_add(a, 2, 0, "-pm1-", "", "tail.pm1", NULL, 400, 11, 0, 0, 1262304000);
	/* 5: a member truncated in its data */
	a = &ARCS[NARCS++]; ab_init(a, 1 << 18);
	ab_add(a, 1, 0, "-lh0-", "", "first", NULL, 100, 12, 0, 0, 0);
	ab_add(a, 1, 0, "-lh5-", "", "cut", NULL, 3000, 13, 0, 0, 0);
	a->n -= 57;
	a->m[1].data_len -= 57;
	TRUNCATED_LAST[5] = 1;
	/* 6: dangerous links at different depths (the ordering key is path + name), inside a directory the caller may leave unextracted */
	a = &ARCS[NARCS++]; ab_init(a, 1 << 18);
	ab_add(a, 2, 1, "-lhd-", "dd/", "", NULL, 0, 0, 1, 040755, 1262304000);
	ab_add(a, 2, 2, "-lhd-", "dd/", "quite_long_name", "../x", 0, 0, 1, 0120777, 1262304000);
	ab_add(a, 2, 2, "-lhd-", "", "shortlnk", "/abs", 0, 0, 1, 0120777, 1262304000);
	ab_add(a, 2, 2, "-lhd-", "dd/", "s2", "../../y", 0, 0, 1, 0120777, 1262304000);
	ab_add(a, 2, 0, "-lh0-", "", "f", NULL, 10, 8, 1, 0100644, 1262304000);
	/* targets whose only '..' component is the last one are dangerous too; '..x' and '...' are ordinary names */
	ab_add(a, 2, 2, "-lhd-", "", "t1", "..", 0, 0, 1, 0120777, 1262304000);
	ab_add(a, 2, 2, "-lhd-", "dd/", "t2", "sub/..", 0, 0, 1, 0120777, 1262304000);
	ab_add(a, 2, 2, "-lhd-", "", "t3", "..x/...", 0, 0, 1, 0120777, 1262304000);
	/* 7: MacLHA member whose data is cut (the MacBinary pass-through cannot start), then nothing */
	a = &ARCS[NARCS++]; ab_init(a, 1 << 18);
	ab_add(a, 1, 0, "-lh5-", "", "ok", NULL, 200, 14, 0, 0, 0);
	ab_add_mac(a, 2, "Cut Mac", 300, 0, 1, 1262304000);
	a->n -= 350;
	a->m[1].data_len -= 350;
	TRUNCATED_LAST[7] = 1;
	/* 8: a directory with two sub-directories and a file after them (pop of a child must not disturb the parent) */
	a = &ARCS[NARCS++]; ab_init(a, 1 << 18);
	ab_add(a, 2, 1, "-lhd-", "P/", "", NULL, 0, 0, 1, 040555, 1262304010);
	ab_add(a, 2, 1, "-lhd-", "P/a/", "", NULL, 0, 0, 1, 040700, 1262304011);
	ab_add(a, 2, 0, "-lh0-", "P/a/", "f1", NULL, 20, 21, 1, 0100644, 1262304000);
	ab_add(a, 2, 1, "-lhd-", "P/b/", "", NULL, 0, 0, 1, 040755, 1262304012);
	ab_add(a, 2, 0, "-lh5-", "P/b/", "f2", NULL, 300, 22, 1, 0100600, 1262304000);
	ab_add(a, 2, 0, "-lh0-", "P/", "z", NULL, 5, 23, 1, 0100644, 1262304000);
	/* 9: two members, the end marker (a zero header-length byte; 22 zero bytes here), and a complete member behind it that must
	 * never be handed out, however often the caller asks again after the end */
	a = &ARCS[NARCS++]; ab_init(a, 1 << 18);
	ab_add(a, 0, 0, "-lh0-", "", "FIRST.TXT", NULL, 30, 31, 0, 0, 0);
	AB_DOUBLE_NAME = 1;         /* this member and the next carry their name twice */
	ab_add(a, 2, 0, "-lh5-", "", "second.txt", NULL, 500, 32, 1, 0100644, 1262304000);
	AB_DOUBLE_NAME = 0;
	ab_add(a, 2, 1, "-lhd-", "sub/", "", NULL, 0, 0, 1, 040755, 1262304000);
	AB_DOUBLE_NAME = 1;
	ab_add(a, 1, 0, "-lh0-", "sub/", "third.txt", NULL, 40, 34, 1, 0100644, 1262304000);
	AB_DOUBLE_NAME = 0;
	/* a directory entry without any metadata (no Unix headers, zero time stamp) and a file in it */
	ab_add(a, 2, 1, "-lhd-", "bare/", "", NULL, 0, 0, 0, 0, 0);
	ab_add(a, 2, 0, "-lh0-", "bare/", "in", NULL, 12, 35, 0, 0, 0);
	ab_stub(a, 22, 0);
	ab_add(a, 1, 0, "-lh0-", "", "ghost.txt", NULL, 10, 33, 0, 0, 0);
	--a->nm;
}

/* ------------------------------------------------------------------ sandbox */

static int rm_cb(const char *p, const struct stat *sb, int flag, struct FTW *f)
{
	(void) sb; (void) f;
	if (flag == FTW_DP || flag == FTW_D) { chmod(p, 0700); return rmdir(p); }
	return unlink(p);
}

static char SANDBOX[128];
static void sandbox_enter(void)
{
	snprintf(SANDBOX, sizeof SANDBOX, "sbx.%d", (int) getpid());
	mkdir(SANDBOX, 0755);
	if (chdir(SANDBOX)) { printf("HARNESS cannot enter sandbox\n"); exit(2); }
}
static void chmod_cb_all(void);
static void sandbox_leave(void)
{
	if (chdir("..")) exit(2);
	chmod_cb_all();
	nftw(SANDBOX, rm_cb, 16, FTW_DEPTH | FTW_PHYS);
}
static int chm_cb(const char *p, const struct stat *sb, int flag, struct FTW *f)
{
	(void) f;
	if (flag == FTW_D && S_ISDIR(sb->st_mode)) chmod(p, 0700);
	return 0;
}
static void chmod_cb_all(void) { nftw(SANDBOX, chm_cb, 16, FTW_PHYS); }

static int parent_exists(const char *full)
{
	char tmp[300];
	char *s;
	struct stat sb;
	snprintf(tmp, sizeof tmp, "%s", full);
	s = strrchr(tmp, '/');
	if (s && s[1] == 0) { *s = 0; s = strrchr(tmp, '/'); }     /* directory path with trailing slash */
	if (!s) return 1;
	*s = 0;
	return stat(tmp, &sb) == 0 && S_ISDIR(sb.st_mode);
}

/* ------------------------------------------------------------------ reference reader model */

enum { M_START, M_NORMAL, M_FAKE, M_DEFERRED, M_END };

typedef struct {
	const ab_arc *a;
	int trunc_last;
	int policy;
	int i;                 /* current basic member (-1 before the first, nm after the last) */
	int kind, cur;
	int D[AB_MAXMEM], nD;
	int S[AB_MAXMEM], nS;
	int decoded;           /* a decode operation was started on the current entry */
	size_t readpos;
} model;

static int is_dangerous(const char *t)
{
	const char *p = t, *start = t;
	if (t[0] == '/') return 1;
	for (;; ++p) {
		if (*p == '/' || *p == 0) {
			if (p - start == 2 && start[0] == '.' && start[1] == '.') return 1;
			if (*p == 0) break;
			start = p + 1;
		}
	}
	return 0;
}

static void model_init(model *m, const ab_arc *a, int trunc_last, int policy)
{
	memset(m, 0, sizeof *m);
	m->a = a; m->trunc_last = trunc_last; m->policy = policy;
	m->i = -1; m->kind = M_START; m->cur = -1;
}

/* returns member index of the entry or -1 for NULL */
static int model_next(model *m)
{
	int have;
	m->decoded = 0; m->readpos = 0;
	if (m->kind == M_END) return -1;
	if (m->kind == M_START || m->kind == M_NORMAL) {
		if (m->i < m->a->nm) {
			/* a member whose data is cut ends the archive */
			if (m->i >= 0 && m->trunc_last && m->i == m->a->nm - 1) m->i = m->a->nm;
			else ++m->i;
		}
	}
	have = m->i >= 0 && m->i < m->a->nm;
	if (m->nD > 0) {
		const ab_member *top = &m->a->m[m->D[m->nD - 1]];
		int pop;
		if (!have) pop = 1;
		else if (m->policy == LHA_READER_DIR_PLAIN) pop = 1;
		else if (m->policy == LHA_READER_DIR_END_OF_FILE) pop = 0;
		else {
			const ab_member *in = &m->a->m[m->i];
			/* a file in the archive root has no path at all */
			pop = in->path[0] == 0 || strncmp(in->path, top->path, strlen(top->path)) != 0;
		}
		if (pop) { m->cur = m->D[--m->nD]; m->kind = M_FAKE; return m->cur; }
	}
	if (have) { m->cur = m->i; m->kind = M_NORMAL; return m->cur; }
	if (m->nS > 0) {
		int k;
		m->cur = m->S[0];
		for (k = 1; k < m->nS; ++k) m->S[k - 1] = m->S[k];
		--m->nS;
		m->kind = M_DEFERRED;
		return m->cur;
	}
	m->kind = M_END; m->cur = -1;
	return -1;
}

static size_t member_pathlen(const ab_member *x) { return strlen(x->path) + strlen(x->name); }

/* ------------------------------------------------------------------ executor */

enum { A_NOTHING, A_R1, A_R7, A_R4096, A_R1_4096, A_R7_7, A_RALL, A_CHECK, A_EXTRACT, A_COUNT };
static const char *ANAME[A_COUNT] = { "-", "r1", "r7", "r4096", "r1+r4096", "r7+r7", "rall", "check", "extract" };

typedef struct {
	int full_entries;       /* entries that get the full menu; later ones get the fixed action */
	int cut_after;          /* stop after this many operations (-1: run to the end), then free */
	int leak_check;
	int check_tree;
} run_opts;

/* harness bookkeeping must not count as library allocations */
#define STEP(x) do { int t_ = TRACK; TRACK = 0; vf_step(x); TRACK = t_; } while (0)
static int LEAKS;          /* report the release balance (C20) */
static long OPS;            /* operations performed in this execution (for the prefix space) */

static int member_intact(const model *m, int idx)
{
	return !(m->trunc_last && idx == m->a->nm - 1);
}

static void do_reads(LHAReader *rd, model *m, const size_t *sizes, int n, int until_end)
{
	static uint8_t buf[8192];
	const ab_member *x = &m->a->m[m->cur];
	int k;
	const uint8_t *want = x->visible ? x->visible : x->plain;
	size_t wl = x->visible ? x->visible_len : x->plain_len;
	int readable = m->kind == M_NORMAL && x->kind == 0 && x->supported;
	for (k = 0; k < n || until_end; ++k) {
		size_t ask = sizes[until_end ? 0 : k];
		size_t got = lha_reader_read(rd, buf, ask);
		++OPS;
		STEP(vf_mix(bytes_hash(buf, got, 0), ((uint64_t) m->cur << 8) | m->kind));
		if (got > ask) { vf_viol("c15-read-overlong", "read(%zu) returned %zu", ask, got); return; }
		if (FAULT_FIRED) return;
		if (!readable) {
			if (got != 0) vf_viol("c15-read-unreadable", "read on entry %d (kind %d, %s) returned %zu bytes", m->cur, m->kind, x->method, got);
			return;
		}
		if (member_intact(m, m->cur)) {
			size_t left = wl - m->readpos, exp = ask < left ? ask : left;
			if (got != exp || memcmp(buf, want + m->readpos, got))
				vf_viol("c15-read-bytes", "entry %d (%s): read(%zu) at offset %zu returned %zu bytes, expected %zu (or content differs)", m->cur, x->method, ask, m->readpos, got, exp);
		}
		m->readpos += got;
		if (got == 0 && ask > 0) return;
	}
}

/* one complete execution; choices come from the enumerator */
static void execute(const ab_arc *a, int ai, int policy, vf_enum *e, const run_opts *ro)
{
	mem_stream ms;
	LHAInputStream *st;
	LHAReader *rd;
	model m;
	int entries = 0, extra_next = 0, fds0;
	long bal0;
	OPS = 0;
	sandbox_enter();
	fds0 = count_fds();
	ALLOC_BAL = 0; FILES_OPEN = 0; ALLOC_COUNT = 0; FAULT_FIRED = 0;
	TRACK = 1;
	bal0 = ALLOC_BAL;
	st = mem_open(&ms, a->buf, a->n, STREAM_SKIP_KIND);      /* 1: skip callback; 0 (argument noskip=1): the library reads over what it skips */
	rd = st ? lha_reader_new(st) : NULL;
	if (!rd) { TRACK = 0; if (st) lha_input_stream_free(st); sandbox_leave(); return; }
	lha_reader_set_dir_policy(rd, policy);
	model_init(&m, a, TRUNCATED_LAST[ai], policy);
	for (;;) {
		LHAFileHeader *h;
		int want, fake, action;
		const ab_member *x;
		if (ro->cut_after >= 0 && OPS >= ro->cut_after) break;
		h = lha_reader_next_file(rd);
		++OPS;
		want = model_next(&m);
		STEP(vf_mix(header_hash(h), ((uint64_t) (want + 1) << 8) | m.kind));
		if (FAULT_FIRED) {
			/* after an allocation fault only memory safety and the release balance are judged: the history goes on
			 * (same actions per entry position) without the model */
			int act;
			if (!h) { if (++extra_next >= 3) break; continue; }
			{
				/* whatever could not be allocated, a header that is handed out is a clean one (C11: "in every header the library
				 * returns"): no '/' in the name, no '.', '..' or empty component in the path */
				const char *bad = path_invariant(h);
				if (bad) vf_viol("c11-invariant-after-allocation-failure", "%s: path=[%s] filename=[%s]", bad, h->path ? h->path : "(null)", h->filename ? h->filename : "(null)");
			}
			act = entries < ro->full_entries ? vf_choose(e, A_COUNT) : A_EXTRACT;
			++entries;
			if (entries > 40) break;
			if (act >= A_R1 && act <= A_RALL) { static uint8_t bb[4096]; int q; for (q = 0; q < 3; ++q) { ++OPS; if (lha_reader_read(rd, bb, act == A_R1 ? 1 : act == A_R7 ? 7 : 4096) == 0) break; } }
			else if (act == A_CHECK) { ++OPS; (void) lha_reader_check(rd, NULL, NULL); }
			else if (act == A_EXTRACT) { ++OPS; (void) lha_reader_extract(rd, NULL, NULL, NULL); }
			continue;
		}
		if ((h == NULL) != (want < 0)) {
			vf_viol("c15-entry-sequence", "step %d: reader returned %s, model expects %s (entry %d kind %d)", entries, h ? "a header" : "end", want < 0 ? "end" : "an entry", want, m.kind);
			break;
		}
		fake = lha_reader_current_is_fake(rd);
		if (fake != (m.kind == M_FAKE || m.kind == M_DEFERRED))
			vf_viol("c15-is-fake", "step %d: current_is_fake=%d, model kind %d", entries, fake, m.kind);
		if (!h) {
			if (++extra_next >= 3) break;
			continue;
		}
		x = &a->m[want];
		/* identity of the returned header */
		if (!str_eq(h->filename, x->name[0] != 0 || (x->level <= 1 && x->kind == 1), x->name) && !(x->kind == 1 && h->filename == NULL && x->name[0] == 0))
			vf_viol("c15-entry-identity", "step %d: filename [%s], model expects entry %d [%s%s]", entries, h->filename ? h->filename : "(null)", want, x->path, x->name);
		else if ((h->path == NULL) != (x->path[0] == 0) || (h->path && strcmp(h->path, x->path)))
			vf_viol("c15-entry-identity", "step %d: path [%s], model expects [%s]", entries, h->path ? h->path : "(null)", x->path);
		else if (memcmp(h->compress_method, x->method, 5) || h->length != (x->visible && 0 ? 0 : x->plain_len) || h->crc != x->crc)
			vf_viol("c15-entry-header", "step %d: method/length/crc of entry %d differ from the member table", entries, want);
		/* caller's action on this entry */
		if (entries < ro->full_entries) action = vf_choose(e, A_COUNT);
		else action = A_EXTRACT;
		++entries;
		switch (action) {
		case A_NOTHING: break;
		case A_R1: { size_t s[1] = { 1 }; do_reads(rd, &m, s, 1, 0); break; }
		case A_R7: { size_t s[1] = { 7 }; do_reads(rd, &m, s, 1, 0); break; }
		case A_R4096: { size_t s[1] = { 4096 }; do_reads(rd, &m, s, 1, 0); break; }
		case A_R1_4096: { size_t s[2] = { 1, 4096 }; do_reads(rd, &m, s, 2, 0); break; }
		case A_R7_7: { size_t s[4] = { 0, 7, 0, 7 }; do_reads(rd, &m, s, 4, 0); break; }      /* with zero-length requests in between */
		case A_RALL: { size_t s[1] = { 4096 }; do_reads(rd, &m, s, 1, 1); break; }
		case A_CHECK: {
			int v = lha_reader_check(rd, NULL, NULL), exp;
			++OPS;
			if (m.kind != M_NORMAL) exp = 0;
			else if (x->kind != 0) exp = 1;
			else exp = x->supported && member_intact(&m, want);
			if (!FAULT_FIRED && v != exp) vf_viol("c15-check-verdict", "check on entry %d (kind %d, %s) returned %d, expected %d", want, m.kind, x->method, v, exp);
			break;
		}
		default: {
			char full[300];
			int v, exp, pe;
			struct stat sb;
			snprintf(full, sizeof full, "%s%s", x->path, x->name);
			pe = parent_exists(full);
			if (m.kind == M_FAKE) exp = 1;
			else if (m.kind == M_DEFERRED) exp = pe;
			else if (x->kind == 1) {
				char d[300];
				snprintf(d, sizeof d, "%s", x->path);
				if (d[0] && d[strlen(d) - 1] == '/') d[strlen(d) - 1] = 0;
				if (lstat(d, &sb) == 0) exp = S_ISDIR(sb.st_mode) ? 1 : 0;     /* existed: success only when it is a directory, not pushed */
				else if (pe) { exp = 1; if (policy != LHA_READER_DIR_PLAIN) m.D[m.nD++] = want; }
				else exp = 0;
			} else if (x->kind == 2) {
				exp = pe && !(lstat(full, &sb) == 0 && S_ISDIR(sb.st_mode));
				if (exp && is_dangerous(x->target)) {
					/* inserted before the first element whose path is not strictly longer */
					int pos = 0, k;
					while (pos < m.nS && member_pathlen(&a->m[m.S[pos]]) > member_pathlen(x)) ++pos;
					for (k = m.nS; k > pos; --k) m.S[k] = m.S[k - 1];
					m.S[pos] = want; ++m.nS;
				}
			} else {
				exp = pe && x->supported && member_intact(&m, want) && !(lstat(full, &sb) == 0 && S_ISDIR(sb.st_mode));
			}
			v = lha_reader_extract(rd, NULL, NULL, NULL);
			++OPS;
			if (!FAULT_FIRED && v != exp) vf_viol("c15-extract-result", "extract on entry %d (kind %d, %s%s) returned %d, expected %d", want, m.kind, x->path, x->name, v, exp);
			break;
		}
		}
	}
	lha_reader_free(rd);
	lha_input_stream_free(st);
	TRACK = 0;
	if (ro->check_tree && !FAULT_FIRED) {
		/* every entry was extracted with the header's own names: the tree must carry the recorded contents, and for
		 * the two deferring policies every directory its recorded mode and modification time although its children
		 * were written after it was created */
		int k;
		for (k = 0; k < a->nm; ++k) {
			const ab_member *x = &a->m[k];
			char full[300];
			struct stat sb;
			snprintf(full, sizeof full, "%s%s", x->path, x->name);
			if (x->kind == 1) {
				if (full[0] && full[strlen(full) - 1] == '/') full[strlen(full) - 1] = 0;
				if (lstat(full, &sb) != 0 || !S_ISDIR(sb.st_mode)) { vf_viol("c06-policy-dir-missing", "policy %d: directory %s missing after extracting everything", policy, full); continue; }
				if (x->unix_meta && (sb.st_mode & 0777) != (x->perms & 0777)) vf_viol("c06-policy-dir-mode", "policy %d: directory %s has mode %o, recorded %o", policy, full, (unsigned) sb.st_mode & 0777, x->perms & 0777);
				if (policy != LHA_READER_DIR_PLAIN && x->level >= 1 && x->mtime != 0 && (uint32_t) sb.st_mtime != x->mtime) {     /* a zero time stamp means none is recorded */
					/* a directory that holds a deferred link is re-timed when the link is created at the end: outside the guarantee */
					int holds_deferred = 0, j;
					for (j = 0; j < a->nm; ++j) if (a->m[j].kind == 2 && is_dangerous(a->m[j].target) && !strcmp(a->m[j].path, x->path)) holds_deferred = 1;
					if (!holds_deferred) vf_viol("c06-policy-dir-mtime", "policy %d: directory %s has mtime %ld, recorded %u", policy, full, (long) sb.st_mtime, x->mtime);
				}
			} else if (x->kind == 0 && x->supported && member_intact(&m, k)) {
				FILE *f = __real_fopen(full, "rb");
				const uint8_t *want = x->visible ? x->visible : x->plain;
				size_t wl = x->visible ? x->visible_len : x->plain_len, n;
				static uint8_t fb[1 << 16];
				if (!f) { vf_viol("c06-policy-file-missing", "policy %d: %s missing after extracting everything", policy, full); continue; }
				n = fread(fb, 1, sizeof fb, f);
				__real_fclose(f);
				if (n != wl || memcmp(fb, want, wl)) vf_viol("c06-policy-file-content", "policy %d: %s has %zu bytes, expected %zu (or content differs)", policy, full, n, wl);
			}
		}
	}
	if (ro->leak_check && LEAKS) {
		int fds1 = count_fds();
		if (ALLOC_BAL != bal0) vf_viol("c20-leak", "%ld allocation(s) not released after freeing reader and stream (archive %d, %ld operations%s)", ALLOC_BAL - bal0, ai, OPS, FAULT_FIRED ? ", after an injected allocation failure" : "");
		if (FILES_OPEN != 0 || fds1 != fds0) vf_viol("c20-handle-leak", "%ld FILE stream(s) / %d descriptor(s) left open", FILES_OPEN, fds1 - fds0);
	}
	sandbox_leave();
}

static const char *hist_str(vf_enum *e)
{
	static char b[256];
	int i, o = 0;
	b[0] = 0;
	for (i = 0; i < e->len && o < 230; ++i) o += snprintf(b + o, sizeof b - o, "%s ", ANAME[e->choice[i]]);
	return b;
}


/* ------------------------------------------------------------------ two readers on two threads under a cooperative scheduler
 * Scheduling points: every API boundary, every call of the library into the caller (stream read, progress callback).
 * At each point the enumerator decides: continue (0) or hand over to the other thread (1 = a preemption). */
#include <pthread.h>
#include <semaphore.h>

typedef struct {
	int id, arc, prog;
	uint64_t log[256];
	int nlog;
	int free_running;
	unsigned reads;
} treader;

static sem_t SEM[2];
static volatile int ALIVE[2];
static vf_enum *SCHED;
static int SWITCHES;

static void sched_point(treader *t)
{
	int me = t->id, other = 1 - me;
	if (t->free_running || !SCHED) return;
	if (!ALIVE[other]) return;
	if (vf_choose(SCHED, 2)) {
		++SWITCHES;
		sem_post(&SEM[other]);
		sem_wait(&SEM[me]);
	}
}

static int sched_answer(void *u, size_t asked, size_t avail)
{
	treader *t = (treader *) u;
	(void) asked;
	/* bit readers ask for four bytes at a time: every 8th source call is a scheduling point */
	if ((++t->reads & 7) == 0) sched_point(t);
	return (int) avail;
}

static void sched_progress(unsigned int a, unsigned int b, void *u)
{
	(void) a; (void) b;
	sched_point((treader *) u);
}

static void tlog(treader *t, uint64_t v) { if (t->nlog < 256) t->log[t->nlog++] = v; }

/* programs: 0 check every entry, 1 extract every entry (explicit names), 2 read every entry in 7-byte pieces,
 * 3 alternate check / extract with progress callbacks */
static void reader_body(treader *t)
{
	const ab_arc *a = &ARCS[t->arc];
	mem_stream ms;
	LHAInputStream *st = mem_open(&ms, a->buf, a->n, t->id);       /* one reader with a skip callback, one without */
	LHAReader *rd;
	LHAFileHeader *h;
	int k = 0;
	char name[64];
	static __thread uint8_t buf[512];
	ms.answer = sched_answer; ms.answer_u = t;
	rd = lha_reader_new(st);
	for (;;) {
		sched_point(t);
		h = lha_reader_next_file(rd);
		tlog(t, header_hash(h));
		if (!h || k > 40) break;
		snprintf(name, sizeof name, "T%d-%d-%d", t->id, t->arc, k);
		sched_point(t);
		if (t->prog == 0 || (t->prog == 3 && (k & 1) == 0)) tlog(t, 100 + (uint64_t) lha_reader_check(rd, t->prog == 3 ? sched_progress : NULL, t));
		else if (t->prog == 1 || t->prog == 3) {
			int v = lha_reader_extract(rd, name, t->prog == 3 ? sched_progress : NULL, t);
			struct stat sb;
			tlog(t, 200 + (uint64_t) v);
			if (v && lstat(name, &sb) == 0 && S_ISREG(sb.st_mode)) {
				/* content of what was written */
				FILE *f = __real_fopen(name, "rb");
				uint64_t bh = 0;
				size_t n;
				if (f) { static __thread uint8_t fb[4096]; while ((n = fread(fb, 1, sizeof fb, f)) > 0) bh = bytes_hash(fb, n, bh); __real_fclose(f); }
				tlog(t, bh);
			}
		} else {
			uint64_t bh = 0;
			size_t got;
			while ((got = lha_reader_read(rd, buf, 7)) > 0) { bh = bytes_hash(buf, got, bh); if (got > 7) break; }
			tlog(t, bh);
		}
		++k;
	}
	lha_reader_free(rd);
	lha_input_stream_free(st);
}

static void *thread_main(void *u)
{
	treader *t = (treader *) u;
	int me = t->id;
	if (!t->free_running) sem_wait(&SEM[me]);
	reader_body(t);
	ALIVE[me] = 0;
	if (!t->free_running && ALIVE[1 - me]) sem_post(&SEM[1 - me]);
	return NULL;
}

static void space_threads(void)
{
	int bound = atoi(vf_extra("preemptions", "2"));
	int free_running = atoi(vf_extra("free", "0"));
	static const int arcs[4] = { 0, 1, 3, 4 };
	int pa, pb;
	for (pa = 0; pa < 16; ++pa)
	for (pb = pa; pb < 16; ++pb) {
		treader solo[2], run[2];
		vf_enum e;
		long schedules = 0, maxsw = 0;
		int i;
		int stride = atoi(vf_extra("stride", "1"));
		int need_fs = (pa % 4 == 1 || pa % 4 == 3 || pb % 4 == 1 || pb % 4 == 3);
		if (((pa * 16 + pb) % stride) != 0) continue;
		if (!vf_case("reader A: archive %d program %d ; reader B: archive %d program %d ; all schedules with <= %d preemptions", arcs[pa / 4], pa % 4, arcs[pb / 4], pb % 4, bound)) continue;
		/* solo runs, each in a fresh sandbox */
		for (i = 0; i < 2; ++i) {
			memset(&solo[i], 0, sizeof solo[i]);
			solo[i].id = i; solo[i].arc = arcs[(i ? pb : pa) / 4]; solo[i].prog = (i ? pb : pa) % 4; solo[i].free_running = 1;
			sandbox_enter();
			reader_body(&solo[i]);
			sandbox_leave();
		}
		vf_enum_init(&e, bound);
		do {
			pthread_t th[2];
			if (need_fs) sandbox_enter();
			vf_enum_begin(&e);
			SCHED = free_running ? NULL : &e;
			SWITCHES = 0;
			for (i = 0; i < 2; ++i) {
				memset(&run[i], 0, sizeof run[i]);
				run[i].id = i; run[i].arc = solo[i].arc; run[i].prog = solo[i].prog; run[i].free_running = free_running;
				sem_init(&SEM[i], 0, 0);
				ALIVE[i] = 1;
			}
			for (i = 0; i < 2; ++i) pthread_create(&th[i], NULL, thread_main, &run[i]);
			if (!free_running) sem_post(&SEM[0]);
			for (i = 0; i < 2; ++i) pthread_join(th[i], NULL);
			if (need_fs) sandbox_leave();
			++schedules;
			if (SWITCHES > maxsw) maxsw = SWITCHES;
			for (i = 0; i < 2; ++i) {
				vf_step(vf_hash(run[i].log, sizeof(uint64_t) * (size_t) run[i].nlog, (uint64_t) i));
				if (run[i].nlog != solo[i].nlog || memcmp(run[i].log, solo[i].log, sizeof(uint64_t) * (size_t) run[i].nlog)) {
					int d = 0;
					while (d < run[i].nlog && d < solo[i].nlog && run[i].log[d] == solo[i].log[d]) ++d;
					{
						char sw[200]; int q, o = 0;
						sw[0] = 0;
						for (q = 0; q < e.len && o < 180; ++q) if (e.choice[q]) o += snprintf(sw + o, sizeof sw - o, "%d ", q);
						vf_viol("c15-reader-interference", "reader %c observes something else than in its solo run at observation %d (hand-overs at scheduling points %sof %d)", 'A' + i, d, sw, e.len);
					}
				}
			}
			if (e.diverged) { printf("HARNESS schedule replay diverged\n"); break; }
		} while (!free_running && vf_enum_next(&e) && !VF.stop && schedules < 400000 && VF.violations < 20);
		if (schedules >= 400000) { VF.stop = 1; printf("NOTE pair%d.%d-capped=1\n", pa, pb); }
		printf("NOTE pair%d.%d=schedules:%ld,max-switches:%ld\n", pa, pb, schedules, maxsw);
		if (maxsw > 0 || free_running) vf_nontrivial(vf_mix(pa * 16 + pb, bound));
		vf_outcome(vf_mix(schedules, pa * 16 + pb));
		VF.evaluations += schedules - 1;
	}
}

static void set_choices(vf_enum *e, long long idx, int full)
{
	int k;
	vf_enum_init(e, -1);
	for (k = full - 1; k >= 0; --k) { e->choice[k] = (int) (idx % A_COUNT); idx /= A_COUNT; }
	e->fixed = full;
}

int main(int argc, char **argv)
{
	int ai, policy;
	static char obuf[1 << 16];
	vf_init(argc, argv);
	setvbuf(stdout, obuf, _IOLBF, sizeof obuf);      /* no allocation by stdio while the allocator balance is tracked */
	build_archives();
	LEAKS = atoi(vf_extra("leaks", "0"));
	if (!strcmp(VF.space, "fromfile")) {
		/* the constructor that opens the file itself (lha_input_stream_from): with every single allocation of
		 * open + reader + two entries + free failing in turn, the file it opened is closed again and nothing stays allocated */
		int ai;
		/* archives NARCS..NARCS+4 are files in which the library finds no member (the stream ends up in its failed state)
		 * or finds it late: empty, 100 bytes of filler, the first 10 bytes of archive 0, 300 KiB of filler + archive 0
		 * (beyond the search window), 1000 bytes of filler + archive 0 */
		for (ai = 0; ai < NARCS + 5; ++ai) {
			char path[64];
			long K = 0, kk;
			FILE *wf;
			static uint8_t filler[300 * 1024];
			size_t nfill = 0, narc = ai < NARCS ? ARCS[ai].n : 0;
			const uint8_t *arcbuf = ai < NARCS ? ARCS[ai].buf : NULL;
			if (ai >= NARCS) {
				int kind = ai - NARCS;
				memset(filler, 'x', sizeof filler);
				nfill = kind == 1 ? 100 : kind == 3 ? sizeof filler : kind == 4 ? 1000 : 0;
				if (kind >= 2) { arcbuf = ARCS[0].buf; narc = kind == 2 ? (ARCS[0].n < 10 ? ARCS[0].n : 10) : ARCS[0].n; }
			}
			if (!vf_case("archive=%d opened by name: every allocation failing in turn", ai)) continue;
			snprintf(path, sizeof path, "fromfile.%d.lzh", (int) getpid());
			wf = __real_fopen(path, "wb");
			if (!wf) { printf("HARNESS cannot write %s\n", path); continue; }
			if (nfill) fwrite(filler, 1, nfill, wf);
			if (narc) fwrite(arcbuf, 1, narc, wf);
			__real_fclose(wf);
			for (kk = -1; kk < (K ? K : 1); ++kk) {
				LHAInputStream *st;
				int fds0 = count_fds();
				ALLOC_BAL = 0; FILES_OPEN = 0; ALLOC_COUNT = 0; FAULT_FIRED = 0; FAIL_AT = kk; FAIL_AT2 = -1;
				TRACK = 1;
				st = lha_input_stream_from(path);
				if (st) {
					LHAReader *rd = lha_reader_new(st);
					if (rd) {
						uint8_t b[64];
						if (lha_reader_next_file(rd)) { (void) lha_reader_read(rd, b, sizeof b); (void) lha_reader_next_file(rd); }
						lha_reader_free(rd);
					}
					lha_input_stream_free(st);
				}
				TRACK = 0;
				if (kk < 0) K = ALLOC_COUNT;
				++OPS;
				if (ALLOC_BAL != 0) vf_viol("c20-leak", "archive %d opened by name, allocation %ld of %ld fails: %ld allocation(s) not released", ai, kk, K, ALLOC_BAL);
				if (FILES_OPEN != 0 || count_fds() != fds0) vf_viol("c20-file-left-open", "archive %d opened by name, allocation %ld of %ld fails: the file the library opened is still open", ai, kk, K);
				VF.transitions += 1;
			}
			FAIL_AT = -1;
			unlink(path);
			vf_nontrivial(vf_mix((uint64_t) ai, 31415));
			vf_outcome((uint64_t) K);
		}
		vf_done();
		return 0;
	}
	if (!strcmp(VF.space, "histories") || !strcmp(VF.space, "prefixes") || !strcmp(VF.space, "faults")) {
		int full = atoi(vf_extra("full", "4"));
		int only_arc = atoi(vf_extra("archive", "-1"));
		STREAM_SKIP_KIND = atoi(vf_extra("noskip", "0")) ? 0 : 1;
		int prefixes = !strcmp(VF.space, "prefixes"), faults = !strcmp(VF.space, "faults");
		long long total = 1, idx;
		int k;
		for (k = 0; k < full; ++k) total *= A_COUNT;
		for (ai = 0; ai < NARCS; ++ai)
		for (policy = 0; policy < 3; ++policy)
		for (idx = 0; idx < total; ++idx) {
			vf_enum e;
			run_opts ro;
			int unused_nonzero = 0;
			if (only_arc >= 0 && ai != only_arc) continue;
			/* the action vector has one digit per entry that gets the full menu; executions that meet fewer
			 * entries ignore the tail: those vectors are run once (tail all zero) */
			/* the all-extract history: optionally also compare the resulting tree (C06, library policies) */
			{ long long t = idx; int all = 1, q; for (q = 0; q < full; ++q, t /= A_COUNT) if (t % A_COUNT != A_EXTRACT) all = 0; ro.check_tree = all && !prefixes && !faults && atoi(vf_extra("tree", "0")); if (atoi(vf_extra("treeonly", "0")) && !all) continue; }
			if (!vf_case("archive=%d policy=%d actions #%lld", ai, policy, idx)) continue;
			ro.full_entries = full; ro.cut_after = -1; ro.leak_check = 1;
			set_choices(&e, idx, full);
			vf_enum_begin(&e);
			FAIL_AT = -1;
			execute(&ARCS[ai], ai, policy, &e, &ro);
			for (k = e.len; k < full; ++k) if (e.choice[k]) unused_nonzero = 1;
			snprintf(VF.desc, sizeof VF.desc, "archive=%d policy=%d history=%s", ai, policy, hist_str(&e));
			if (unused_nonzero) continue;      /* duplicate of the vector with a zero tail */
			if (prefixes) {
				long totalops = OPS, cut;
				int used = e.len;
				for (cut = 0; cut < totalops; ++cut) {
					vf_enum e2;
					set_choices(&e2, idx, full);
					ro.cut_after = (int) cut;
					snprintf(VF.desc, sizeof VF.desc, "archive=%d policy=%d history=%s cut after %ld operations", ai, policy, hist_str(&e), cut);
					if (VF.cur) strcpy(VF.cur + 16, VF.desc);
					vf_enum_begin(&e2);
					execute(&ARCS[ai], ai, policy, &e2, &ro);
				}
				(void) used;
			}
			if (faults) {
				long kk, K = ALLOC_COUNT;
				ro.cut_after = -1;
				/* ALLOC_COUNT is from the last execute(): rerun the fault-free history to count */
				{ vf_enum e0; set_choices(&e0, idx, full); vf_enum_begin(&e0); FAIL_AT = -1; execute(&ARCS[ai], ai, policy, &e0, &ro); K = ALLOC_COUNT; }
				for (kk = 0; kk < K; ++kk) {
					vf_enum e1;
					set_choices(&e1, idx, full);
					vf_enum_begin(&e1);
					FAIL_AT = kk;
					snprintf(VF.desc, sizeof VF.desc, "archive=%d policy=%d history=%s allocation %ld of %ld fails", ai, policy, hist_str(&e), kk, K);
					if (VF.cur) strcpy(VF.cur + 16, VF.desc);
					execute(&ARCS[ai], ai, policy, &e1, &ro);
				}
				FAIL_AT = -1;
				if (atoi(vf_extra("pairs", "0")) && K <= 60) {
					/* every pair of failing allocations k1 < k2 (the count after the first fault may differ: k2 ranges over the fault-free count) */
					long k1, k2;
					for (k1 = 0; k1 < K; ++k1)
					for (k2 = k1 + 1; k2 < K + 4; ++k2) {
						vf_enum e1;
						set_choices(&e1, idx, full);
						vf_enum_begin(&e1);
						FAIL_AT = k1; FAIL_AT2 = k2;
						snprintf(VF.desc, sizeof VF.desc, "archive=%d policy=%d history=%s allocations %ld and %ld of %ld fail", ai, policy, hist_str(&e), k1, k2, K);
						if (VF.cur) strcpy(VF.cur + 16, VF.desc);
						execute(&ARCS[ai], ai, policy, &e1, &ro);
					}
					FAIL_AT = -1; FAIL_AT2 = -1;
				}
			}
			vf_nontrivial(vf_mix(ai * 4 + policy, vf_hash(e.choice, sizeof(int) * (size_t) e.len, 0)));
			vf_outcome(vf_mix(VF.transitions, ai));
		}
	} else if (!strcmp(VF.space, "threads")) {
		space_threads();
	} else {
		fprintf(stderr, "unknown space %s\n", VF.space);
		return 2;
	}
	vf_done();
	return 0;
}
