#define _GNU_SOURCE
/* E5: C17 - lha_crc16_buf is CRC-16/ARC for every (state, byte), every (state, 2-byte buffer),
 * every length/alignment/split of four content families. */
#include "common.h"
#include "lib/crc16.h"
#include <sys/mman.h>
#include <pthread.h>
#include <unistd.h>
#include "ref_crc16.h"

static uint8_t family_byte(int fam, size_t i)
{
	switch (fam) {
	case 0: return 0x00;
	case 1: return 0xFF;
	case 2: return (uint8_t) (i * 7 + 3);
	default: return (uint8_t) ((i * i * 31 + (i >> 3) * 17 + (i >> 11) * 29 + (i >> 16) * 53 + (i >> 20) * 101) ^ 0xA5);      /* no short period: blocks of 2 KiB, 64 KiB and 1 MiB all differ */
	}
}

typedef struct { int id, rounds, bad; } crc_thread_arg;
static void *crc_thread(void *u)
{
	crc_thread_arg *a = (crc_thread_arg *) u;
	uint8_t buf[96];
	int r, i;
	for (r = 0; r < a->rounds; ++r) {
		int len = 1 + (r * 7 + a->id * 13) % 96;
		uint16_t c = (uint16_t) (r * 31 + a->id), want;
		for (i = 0; i < len; ++i) buf[i] = (uint8_t) (r * 17 + i * 29 + a->id * 101);
		want = ref_crc16(c, buf, (size_t) len);
		lha_crc16_buf(&c, buf, (size_t) len);
		if (c != want) ++a->bad;
	}
	return NULL;
}

int main(int argc, char **argv)
{
	vf_init(argc, argv);

	if (!strcmp(VF.space, "step")) {
		/* one case per state: all 256 bytes */
		unsigned c, b;
		for (c = 0; c < 65536; ++c) {
			if (!vf_case("state=%04x bytes=00..ff", c)) continue;
			for (b = 0; b < 256; ++b) {
				uint16_t crc = (uint16_t) c;
				uint8_t byte = (uint8_t) b;
				uint16_t want = ref_crc16_step((uint16_t) c, byte);
				lha_crc16_buf(&crc, &byte, 1);
				vf_step(((uint64_t) c << 24) | (b << 16) | crc);
				if (crc != want)
					vf_viol("crc-step", "state=%04x byte=%02x got=%04x want=%04x", c, b, crc, want);
			}
			/* zero-length input leaves the state unchanged */
			{
				uint16_t crc = (uint16_t) c;
				uint8_t byte = 0xAA;
				lha_crc16_buf(&crc, &byte, 0);
				if (crc != c) vf_viol("crc-empty", "state=%04x after empty buffer %04x", c, crc);
				/* the empty sequence given as (NULL, 0), as the project's own test does, and as an empty middle piece */
				lha_crc16_buf(&crc, NULL, 0);
				if (crc != c) vf_viol("crc-empty", "state=%04x after the empty buffer (NULL, 0): %04x", c, crc);
				byte = 0x33;
				lha_crc16_buf(&crc, &byte, 1);
				lha_crc16_buf(&crc, NULL, 0);
				lha_crc16_buf(&crc, &byte, 1);
				if (crc != ref_crc16_step(ref_crc16_step((uint16_t) c, 0x33), 0x33)) vf_viol("crc-empty", "state=%04x: an empty middle piece (NULL, 0) changes the result", c);
			}
			vf_nontrivial(c + 1);
			vf_outcome(ref_crc16_step((uint16_t) c, 0x5A));
		}
	} else if (!strcmp(VF.space, "pair")) {
		/* all 2^32 (state, 2-byte buffer) cases, one call each; a case = one state x first byte */
		unsigned c, b0, b1;
		for (c = 0; c < 65536; ++c) {
			for (b0 = 0; b0 < 256; b0 += 256) {
				if (!vf_case("state=%04x all 2-byte buffers", c)) continue;
				for (b0 = 0; b0 < 256; ++b0) {
					uint16_t mid = ref_crc16_step((uint16_t) c, (uint8_t) b0);
					for (b1 = 0; b1 < 256; ++b1) {
						uint8_t buf[2] = { (uint8_t) b0, (uint8_t) b1 };
						uint16_t crc = (uint16_t) c;
						uint16_t want = ref_crc16_step(mid, (uint8_t) b1);
						lha_crc16_buf(&crc, buf, 2);
						++VF.transitions;
						if (crc != want)
							vf_viol("crc-pair", "state=%04x buf=%02x%02x got=%04x want=%04x", c, b0, b1, crc, want);
					}
				}
				vf_set_add(&VF_STATES, c + 1);
				vf_nontrivial(c + 1);
			}
		}
	} else if (!strcmp(VF.space, "split")) {
		/* families x every length 0..maxlen x every alignment 0..15 x every split point
		 * (and every 3-way split for lengths <= 48) */
		int fam, len, al, s1, s2;
		int maxlen = atoi(vf_extra("maxlen", "300"));
		static uint8_t store[1024];
		for (fam = 0; fam < 4; ++fam)
		for (len = 0; len <= maxlen; ++len)
		for (al = 0; al < 16; ++al) {
			uint8_t *buf = store + 16 + al;   /* store is 16-aligned enough: alignment offset al */
			uint16_t init = (uint16_t) (fam * 0x3131 + len);
			uint16_t whole, want;
			size_t i;
			if (!vf_case("family=%d len=%d align=%d init=%04x all splits", fam, len, al, init)) continue;
			for (i = 0; i < (size_t) len; ++i) buf[i] = family_byte(fam, i);
			want = ref_crc16(init, buf, len);
			whole = init;
			lha_crc16_buf(&whole, buf, len);
			vf_step(vf_mix(whole, len));
			if (whole != want)
				vf_viol("crc-whole", "family=%d len=%d align=%d got=%04x want=%04x", fam, len, al, whole, want);
			for (s1 = 0; s1 <= len; ++s1) {
				uint16_t c = init;
				lha_crc16_buf(&c, buf, s1);
				lha_crc16_buf(&c, buf + s1, len - s1);
				vf_step(vf_mix(c, ((uint64_t) len << 20) | s1));
				if (c != want)
					vf_viol("crc-split", "family=%d len=%d align=%d split=%d got=%04x want=%04x", fam, len, al, s1, c, want);
				if (len <= 48)
					for (s2 = s1; s2 <= len; ++s2) {
						c = init;
						lha_crc16_buf(&c, buf, s1);
						lha_crc16_buf(&c, buf + s1, s2 - s1);
						lha_crc16_buf(&c, buf + s2, len - s2);
						++VF.transitions;
						if (c != want)
							vf_viol("crc-split3", "family=%d len=%d align=%d split=%d,%d got=%04x want=%04x", fam, len, al, s1, s2, c, want);
					}
			}
			if (len > 0) vf_nontrivial(vf_mix(fam, ((uint64_t) len << 8) | al));
			vf_outcome(want);
		}
	} else if (!strcmp(VF.space, "selfimage")) {
		/* for EVERY state: short buffers built from the state's own bytes, their complements and zeros (a data-dependent
		 * shortcut keyed on a relation between state and input would have to show here), lengths 3..9, whole and split */
		unsigned c;
		for (c = 0; c < 65536; ++c) {
			uint8_t lo = (uint8_t) c, hi = (uint8_t) (c >> 8);
			uint8_t pats[8][4] = { { lo, hi, 0, 0 }, { hi, lo, 0, 0 }, { lo, hi, lo, hi }, { 0, 0, lo, hi }, { (uint8_t) ~lo, (uint8_t) ~hi, 0xFF, 0xFF },
			                       { lo, 0, hi, 0 }, { 0, 0, 0, 0 }, { 0xFF, 0xFF, 0xFF, 0xFF } };
			int p, len, k;
			if (!vf_case("state=%04x self-image buffers", c)) continue;
			for (p = 0; p < 8; ++p)
			for (len = 3; len <= 9; ++len) {
				uint8_t buf[16];
				uint16_t want, got, g2;
				for (k = 0; k < len; ++k) buf[k] = pats[p][k & 3];
				if (len > 4) for (k = 4; k < len; ++k) buf[k] = p < 6 ? 0 : pats[p][0];
				want = ref_crc16((uint16_t) c, buf, (size_t) len);
				got = (uint16_t) c;
				lha_crc16_buf(&got, buf, (size_t) len);
				g2 = (uint16_t) c;
				lha_crc16_buf(&g2, buf, 2);
				lha_crc16_buf(&g2, buf + 2, (size_t) len - 2);
				++VF.transitions;
				if (got != want || g2 != want)
					vf_viol("crc-selfimage", "state=%04x buf=%s: whole %04x, split at 2 %04x, reference %04x", c, vf_hex(buf, (size_t) len), got, g2, want);
			}
			vf_set_add(&VF_STATES, c + 1);
			vf_nontrivial(c + 1);
		}
	} else if (!strcmp(VF.space, "lengths")) {
		/* EVERY length 0..maxlen in one call, at every alignment 0..7, against the bitwise definition (kept incrementally):
		 * block-wise or unrolled implementations have their seams at particular lengths and residues */
		int maxlen = atoi(vf_extra("maxlen", "9000")), base, al;
		uint8_t *store = malloc((size_t) maxlen + 64);
		size_t i;
		for (i = 0; i < (size_t) maxlen + 64; ++i) store[i] = family_byte(3, i);
		for (base = 0; base <= maxlen; base += 64)
		for (al = 0; al < 8; ++al) {
			uint8_t *buf = store + 16 + al;
			uint16_t want;
			int len;
			/* every 16th block of lengths runs on heap blocks that end exactly where the data ends (asan flavour: a read of one
			 * byte past the buffer is reported), the others inside a larger array */
			int exact = (base / 64) % 16 == 0 || base < 640;
			if (!vf_case("every length %d..%d at alignment %d in one call", base, base + 63 <= maxlen ? base + 63 : maxlen, al)) continue;
			want = ref_crc16(0xA5C3, buf, (size_t) base);
			for (len = base; len < base + 64 && len <= maxlen; ++len) {
				uint16_t c = 0xA5C3;
				if (len > base) want = ref_crc16(want, buf + len - 1, 1);
				if (exact && len > 0) {
					uint8_t *blk = malloc((size_t) len + (size_t) al), *p = blk + al;
					memcpy(p, buf, (size_t) len);
					lha_crc16_buf(&c, p, (size_t) len);
					/* and as two pieces whose second ends at the end of the block */
					{ uint16_t c2 = 0xA5C3; lha_crc16_buf(&c2, p, (size_t) len / 2); lha_crc16_buf(&c2, p + len / 2, (size_t) len - (size_t) len / 2); if (c2 != c) c = (uint16_t) ~want; }
					free(blk);
				} else
				lha_crc16_buf(&c, buf, (size_t) len);
				++VF.transitions;
				if (c != want) { vf_viol("crc-length", "len=%d align=%d: got=%04x want=%04x", len, al, c, want); break; }
			}
			vf_step(vf_mix(want, base * 8 + al));
			vf_nontrivial(vf_mix(base, al) + 1);
			vf_outcome(want);
		}
		free(store);
	} else if (!strcmp(VF.space, "threads")) {
		/* two threads sum their own buffers into their own state words at the same time: the routine depends on nothing but its
		 * arguments.  Run free (no scheduler) in the ThreadSanitizer build, which reports any shared variable; results are
		 * compared with the reference as well. */
		int rounds = atoi(vf_extra("rounds", "3000"));
		if (vf_case("two threads, %d sums each of 1..96 bytes", rounds)) {
			pthread_t th[2];
			static crc_thread_arg arg[2];
			int i;
			for (i = 0; i < 2; ++i) { arg[i].id = i; arg[i].rounds = rounds; arg[i].bad = 0; pthread_create(&th[i], NULL, crc_thread, &arg[i]); }
			for (i = 0; i < 2; ++i) pthread_join(th[i], NULL);
			for (i = 0; i < 2; ++i) if (arg[i].bad) vf_viol("crc-threads", "thread %d: %d of %d sums differ from the reference while another thread is summing", i, arg[i].bad, rounds);
			vf_step(1); vf_nontrivial(4711); vf_outcome(1);
		}
	} else if (!strcmp(VF.space, "giant")) {
		/* one call with 2^31 and more bytes (the length is a size_t): a 1 MiB block mapped again and again gives a buffer of that
		 * size without the memory; whole == the same bytes fed in 1 MiB pieces */
		static const uint64_t lens[] = { 0x7FFFFFFFull, 0x80000000ull, 0x80000005ull, 0x100000000ull, 0xFFFFFFFFull, 0x100000005ull };
		unsigned li;
		int fd = memfd_create("crcblock", 0);
		uint8_t *blk, *base;
		size_t mb = 1u << 20, i, nmap = 4096 + 2;
		if (fd < 0 || ftruncate(fd, (off_t) mb)) { printf("HARNESS memfd\n"); vf_done(); return 0; }
		blk = mmap(NULL, mb, PROT_READ | PROT_WRITE, MAP_SHARED, fd, 0);
		for (i = 0; i < mb; ++i) blk[i] = family_byte(3, i);
		base = mmap(NULL, nmap * mb, PROT_NONE, MAP_PRIVATE | MAP_ANONYMOUS | MAP_NORESERVE, -1, 0);
		if (base == MAP_FAILED) { printf("HARNESS cannot reserve the address range\n"); vf_done(); return 0; }
		for (i = 0; i < nmap; ++i) if (mmap(base + i * mb, mb, PROT_READ, MAP_SHARED | MAP_FIXED, fd, 0) == MAP_FAILED) { printf("HARNESS map %zu\n", i); vf_done(); return 0; }
		for (li = 0; li < sizeof lens / sizeof *lens; ++li) {
			uint64_t L = lens[li], done = 0;
			uint16_t whole = 0x1234, pieces = 0x1234;
			if (li > 3 && !VF.thorough) continue;
			if (!vf_case("one call with %llu bytes against the same bytes in 1 MiB pieces", (unsigned long long) L)) continue;
			lha_crc16_buf(&whole, base + 3, (size_t) L);
			while (done < L) { size_t k = L - done < mb ? (size_t) (L - done) : mb; lha_crc16_buf(&pieces, base + 3 + done, k); done += k; }
			vf_step(vf_mix(whole, L));
			if (whole != pieces) vf_viol("crc-giant", "len=%llu: one call gives %04x, 1 MiB pieces give %04x", (unsigned long long) L, whole, pieces);
			vf_nontrivial(L + 5); vf_outcome(pieces);
		}
	} else if (!strcmp(VF.space, "alias")) {
		/* the 16-bit state the routine updates lies INSIDE the bytes it sums (a record whose own checksum field is part of the
		 * summed range): the result is the CRC of the bytes as they were when the call was made */
		int len, at, fam;
		for (fam = 1; fam < 4; ++fam)
		for (len = 2; len <= 40; ++len)
		for (at = 0; at + 2 <= len; at += 2) {
			uint16_t store16[32], copy16[32];
			uint8_t *buf = (uint8_t *) store16, *cp = (uint8_t *) copy16;
			uint16_t want, init;
			int i;
			if (!vf_case("state word at offset %d of a summed buffer of %d bytes (family %d)", at, len, fam)) continue;
			for (i = 0; i < len; ++i) buf[i] = family_byte(fam, (size_t) i + (size_t) at * 3);
			memcpy(cp, buf, (size_t) len);
			memcpy(&init, buf + at, 2);
			want = ref_crc16(init, cp, (size_t) len);
			lha_crc16_buf(&store16[at / 2], buf, (size_t) len);
			vf_step(vf_mix(store16[at / 2], (uint64_t) len * 64 + (uint64_t) at));
			if (store16[at / 2] != want) vf_viol("crc-alias", "len=%d state at offset %d: got=%04x want=%04x", len, at, store16[at / 2], want);
			vf_nontrivial(vf_mix((uint64_t) len * 64 + (uint64_t) at, (uint64_t) fam) + 9);
			vf_outcome(want);
		}
	} else if (!strcmp(VF.space, "guard")) {
		/* the data ends at the last readable byte of a mapping (the next page is inaccessible); meant for the unoptimised
		 * build, where every access the source makes is really made */
		int maxlen = atoi(vf_extra("maxlen", "600")), len;
		long pg = sysconf(_SC_PAGESIZE);
		uint8_t *map = mmap(NULL, (size_t) pg * 3, PROT_READ | PROT_WRITE, MAP_PRIVATE | MAP_ANONYMOUS, -1, 0);
		if (map == MAP_FAILED || mprotect(map + 2 * pg, (size_t) pg, PROT_NONE)) { printf("HARNESS cannot map the guard page\n"); vf_done(); return 0; }
		for (len = 0; len <= maxlen; ++len) {
			uint8_t *p = map + 2 * pg - len;
			uint16_t want, c, c2;
			int i;
			if (!vf_case("len=%d ending at the last readable byte before an inaccessible page", len)) continue;
			for (i = 0; i < len; ++i) p[i] = family_byte(2, (size_t) i);
			want = ref_crc16(0x0F0F, p, (size_t) len);
			c = 0x0F0F;
			lha_crc16_buf(&c, p, (size_t) len);
			c2 = 0x0F0F;
			lha_crc16_buf(&c2, p, (size_t) len / 3);
			lha_crc16_buf(&c2, p + len / 3, (size_t) len - (size_t) len / 3);
			vf_step(vf_mix(c, (uint64_t) len));
			if (c != want || c2 != want) vf_viol("crc-guard", "len=%d: whole %04x, two pieces %04x, reference %04x", len, c, c2, want);
			if (len) vf_nontrivial((uint64_t) len + 77000);
			vf_outcome(want);
		}
	} else if (!strcmp(VF.space, "long")) {
		/* lengths around 2^16, 2^17, 2^20 and 2^24: whole, and split at boundary points, two alignments */
		static const size_t lens[] = { 65534, 65535, 65536, 65537, 65538, 131071, 131072, 131073, 1048575, 1048576, 1048577, 16777215, 16777216, 16777217 };
		unsigned li, al, si;
		uint8_t *store = malloc((1u << 24) + 64);
		size_t i;
		for (i = 0; i < (1u << 24) + 64; ++i) store[i] = family_byte(3, i);
		for (li = 0; li < sizeof lens / sizeof *lens; ++li)
		for (al = 0; al < 2; ++al) {
			size_t L = lens[li];
			uint8_t *buf = store + 16 + al;
			size_t splits[8] = { 0, 1, 65535 <= L ? 65535 : L, 65536 <= L ? 65536 : L / 3, L / 2, L >= 65536 ? L - 65536 : L / 4, L - 1, L };
			uint16_t want, c;
			if (!VF.thorough && L > 2000000) continue;
			if (!vf_case("long buffer len=%zu align=%u whole and 8 split points", L, al)) continue;
			want = ref_crc16(0x1D0F, buf, L);
			c = 0x1D0F;
			lha_crc16_buf(&c, buf, L);
			vf_step(vf_mix(c, L));
			if (c != want) vf_viol("crc-long", "len=%zu align=%u whole: got=%04x want=%04x", L, al, c, want);
			for (si = 0; si < 8; ++si) {
				c = 0x1D0F;
				lha_crc16_buf(&c, buf, splits[si]);
				lha_crc16_buf(&c, buf + splits[si], L - splits[si]);
				vf_step(vf_mix(c, L * 8 + si));
				if (c != want) vf_viol("crc-long-split", "len=%zu align=%u split=%zu: got=%04x want=%04x", L, al, splits[si], c, want);
			}
			vf_nontrivial(vf_mix(L, al));
			vf_outcome(want);
		}
		free(store);
	} else {
		fprintf(stderr, "unknown space %s\n", VF.space);
		return 2;
	}
	vf_done();
	return 0;
}
