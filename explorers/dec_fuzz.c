/* E1 / C09: no compressed data makes a decoder touch invalid memory (ASan/UBSan build), and no read
 * returns more than asked.  Spaces: short (all byte strings up to a length), lhgrammar, pm2grammar,
 * pm1grammar, lh1bits, subst (single-byte substitutions/truncations of valid streams read from a file). */
#include "dec_common.h"
#include "ref_lh.h"
#include "ref_pm.h"
#include "ref_lh1.h"

/* Large decoder objects (-lhx-: 2 MiB) are served from one reusable slot so that the kernel is not asked for
 * fresh zero pages a million times; the slot is fenced with manually poisoned red zones, so an access
 * outside the object is still an ASan error. */
#if defined(__has_feature)
#if __has_feature(address_sanitizer)
#include <sanitizer/asan_interface.h>
#define POISON(a, n) ASAN_POISON_MEMORY_REGION(a, n)
#define UNPOISON(a, n) ASAN_UNPOISON_MEMORY_REGION(a, n)
#endif
#endif
#ifndef POISON
#define POISON(a, n) ((void) 0)
#define UNPOISON(a, n) ((void) 0)
#endif
#define POOL_SIZE (5u << 20)
static uint8_t POOL[POOL_SIZE] __attribute__((aligned(4096)));
static int pool_busy, pool_init, pool_enable;
void *__real_calloc(size_t n, size_t sz);
void __real_free(void *p);
static uint8_t *pool_rz;       /* current tail red zone */
void *__wrap_calloc(size_t n, size_t sz)
{
	size_t total = n * sz;
	if (!pool_init) { POISON(POOL, 4096); pool_init = 1; }
	if (pool_enable && total >= (16u << 10) && total + 3 * 4096 <= POOL_SIZE && !pool_busy) {
		/* only small red zones are (un)poisoned: re-poisoning megabytes makes ASan remap shadow pages */
		uint8_t *p = POOL + 4096;
		size_t end = (total + 7) & ~(size_t) 7;
		pool_busy = 1;
		if (pool_rz) UNPOISON(pool_rz, 4096);
		pool_rz = p + end;
		POISON(pool_rz, 4096);
		memset(p, 0, total);
		return p;
	}
	return __real_calloc(n, sz);
}
void __wrap_free(void *p)
{
	if (p == POOL + 4096) { pool_busy = 0; return; }
	__real_free(p);
}

static const char *METHODS[14] = { "-lh0-", "-lz4-", "-pm0-", "-lzs-", "-lz5-", "-lh1-", "-lh4-", "-lh5-",
                                   "-lh6-", "-lh7-", "-lhx-", "-lk7-", "-pm1-", "-pm2-" };

/* read-size schedules */
static const size_t SCHED[4][2] = { { 1, 1 }, { 3, 3 }, { 4096, 4096 }, { 1, 4096 } };

static uint64_t fuzz_run(const char *method, const uint8_t *in, size_t n, size_t declared, int sched, int chunk)
{
	LHADecoderType *t = lha_decoder_for_name((char *) method);
	LHADecoder *d;
	size_t total = 0;
	int reads = 0, maxreads = sched == 2 ? 40 : 24;
	uint64_t h = 0;
	uint8_t *buf;
	static long long polluted = -1;
	if (!t) { vf_viol("no-decoder", "%s", method); return 0; }
	if (polluted != VF.index && ((VF.index & 7) == 5 || VF.only >= 0)) {
		/* a long valid stream of the same method is decoded to its end first: state a decoder leaves behind in the process
		 * must not make a later (invalid) stream unsafe */
		polluted = VF.index;
		dec_pollute(method);
	}
	VIN.p = in; VIN.n = n; VIN.pos = 0; VIN.chunk = chunk; VIN.calls = VIN.zero_calls = 0;
	pool_enable = 1;
	d = lha_decoder_new(t, vin_cb, &VIN, declared);
	pool_enable = 0;
	if (!d) return 0;
	while (reads < maxreads) {
		size_t ask = SCHED[sched][reads == 0 ? 0 : 1];
		size_t got;
		buf = malloc(ask);              /* exact size: a longer write is a heap overflow for ASan */
		got = lha_decoder_read(d, buf, ask);
		++reads;
		if (got > ask) vf_viol("read-overlong", "method=%s read(%zu) returned %zu", method, ask, got);
		h = vf_hash(buf, got <= ask ? got : ask, h);
		free(buf);
		total += got;
		vf_step(vf_mix(h, ((uint64_t) (uintptr_t) t) ^ total));
		if (got == 0) break;
		if (total > declared) { vf_viol("declared-exceeded", "method=%s produced %zu > declared %zu", method, total, declared); break; }
	}
	(void) lha_decoder_get_crc(d);
	lha_decoder_free(d);
	return vf_mix(h, total);
}

static void fuzz_all_schedules(const char *method, const uint8_t *in, size_t n, int chunk_too)
{
	/* (declared length, schedule) pairs: every declared length with the bulk schedule, every schedule with 65536 */
	static const size_t decl[7] = { 0, 1, 1, 8192, 8192, 8192, 0xFFFFFFFFu };
	static const int sch[7] = { 2, 0, 2, 0, 1, 2, 3 };
	int k;
	uint64_t o = 0;
	for (k = 0; k < 7; ++k) o = vf_mix(o, fuzz_run(method, in, n, decl[k], sch[k], 0));
	if (chunk_too) o = vf_mix(o, fuzz_run(method, in, n, 8192, 2, (VF.index & 1) ? 1 : -1 - (int) ((VF.index >> 1) % 3)));
	vf_outcome(o);
}

static int bitreader_method(const char *m) { return strcmp(m, "-lz5-") && strcmp(m, "-lh0-") && strcmp(m, "-lz4-") && strcmp(m, "-pm0-"); }

/* append: bit string of 'nb' bits (value v) then a tail of 64 bytes of 0x00 or 0xFF */
static size_t with_tail(ref_bw *w, unsigned v, int nb, int ones)
{
	int i;
	ref_bw_put(w, v, nb);
	for (i = 0; i < 64; ++i) ref_bw_put(w, ones ? 0xFF : 0, 8);
	return ref_bw_bytes(w);
}

static uint8_t SB[1 << 16];

int main(int argc, char **argv)
{
	dec_no_aslr(argv);
	vf_init(argc, argv);
	if (!strcmp(VF.space, "short")) {
		int maxlen = atoi(vf_extra("maxlen", "2")), len, m;
		const char *only = vf_extra("method", "");
		int light = atoi(vf_extra("light", "0"));
		for (m = 0; m < 14; ++m) {
			if (only[0] && strcmp(only, METHODS[m])) continue;
			/* light: only the decoders with small state, two (declared length, schedule) pairs per string */
			if (light && (!strcmp(METHODS[m], "-lhx-") || !strcmp(METHODS[m], "-lh7-") || !strcmp(METHODS[m], "-lh6-") || !strcmp(METHODS[m], "-lh4-") || m < 3)) continue;
			for (len = 0; len <= maxlen; ++len) {
				unsigned long v, lim = 1ul << (8 * len);
				for (v = 0; v < lim; ++v) {
					uint8_t s[4];
					int i;
					for (i = 0; i < len; ++i) s[i] = (uint8_t) (v >> (8 * (len - 1 - i)));
					if (!vf_case("%s input=%s all declared lengths and read schedules", METHODS[m], vf_hex(s, len))) continue;
					if (light) { vf_outcome(vf_mix(fuzz_run(METHODS[m], s, (size_t) len, 8192, 2, 0), fuzz_run(METHODS[m], s, (size_t) len, 1, 0, 0))); }
					else fuzz_all_schedules(METHODS[m], s, len, bitreader_method(METHODS[m]));
					if (len) vf_nontrivial(vf_mix(m, v + ((uint64_t) len << 40)));
				}
			}
		}
	} else if (!strcmp(VF.space, "lhgrammar")) {
		/* malformed table structure for the static Huffman family, then every bit string up to maxbits + tails */
		const ref_lh_params *M = ref_lh_params_for(vf_extra("method", "-lh5-"));
		int maxbits = atoi(vf_extra("maxbits", "8"));
		static const int counts[] = { 0, 1, 0xFFFF };
		static const int tns[] = { 0, 1, 3, 4, 19, 20, 31 };
		static const int tlens[] = { 0, 1, 2, 3, 5, 7, 12, 16, 19 };
		static const int cns[] = { 0, 1, 2, 510, 511 };
		unsigned ci, ti, li, sk, ni, nb, v, tail;
		for (ci = 0; ci < 3; ++ci)
		for (ti = 0; ti < 7; ++ti)
		for (li = 0; li < 9; ++li)
		for (sk = 0; sk < 4; sk += 3)
		for (ni = 0; ni < 5; ++ni)
		for (nb = 0; nb <= (unsigned) maxbits; ++nb)
		for (v = 0; v < (1u << nb); ++v)
		for (tail = 0; tail < 2; ++tail) {
			ref_bw w;
			size_t sl;
			int i;
			if (tns[ti] == 0 && (li > 6 || sk)) continue;     /* single form: li selects the symbol */
			if (!vf_case("%s count=%d t_n=%d tlen=%d skip=%u c_n=%d bits=%u/%u tail=%s", M->name, counts[ci], tns[ti], tlens[li], sk, cns[ni], v, nb, tail ? "ff" : "00")) continue;
			ref_bw_init(&w, SB, sizeof SB);
			ref_bw_put(&w, counts[ci], 16);
			ref_bw_put(&w, tns[ti], 5);
			if (tns[ti] == 0) ref_bw_put(&w, (uint32_t) (li * 5 + (li == 6)), 5);   /* 0,5,10,15,20,25,31 */
			else for (i = 0; i < tns[ti]; ++i) {
				int L = tlens[li];
				if (L < 7) ref_bw_put(&w, L, 3);
				else { int k; ref_bw_put(&w, 7, 3); for (k = 7; k < L; ++k) ref_bw_put(&w, 1, 1); ref_bw_put(&w, 0, 1); }
				if (i == 2) { ref_bw_put(&w, sk, 2); i += sk; }
			}
			ref_bw_put(&w, cns[ni], 9);
			sl = with_tail(&w, v, nb, tail);
			fuzz_all_schedules(M->name, SB, sl, nb <= 4);
			vf_nontrivial(vf_hash(SB, sl, 7));
		}
	} else if (!strcmp(VF.space, "lhgrammar2")) {
		/* valid temp table + code table, malformed offset table / out-of-range single symbols / lengths */
		const ref_lh_params *M = ref_lh_params_for(vf_extra("method", "-lh5-"));
		int maxbits = atoi(vf_extra("maxbits", "8"));
		int pmaxn = (1 << M->pbits) - 1;
		int csingles[] = { 0, 255, 256, 300, M->nc - 1, M->nc, 511 };
		int pns[] = { 0, 1, 2, M->np, M->np + 1, pmaxn };
		int plens[] = { 0, 1, 2, 4, 7, 16, 19 };
		unsigned ci, pi, li, nb, v, tail;
		for (ci = 0; ci < 7; ++ci)
		for (pi = 0; pi < 6; ++pi)
		for (li = 0; li < 7; ++li)
		for (nb = 0; nb <= (unsigned) maxbits; ++nb)
		for (v = 0; v < (1u << nb); ++v)
		for (tail = 0; tail < 2; ++tail) {
			ref_bw w;
			size_t sl;
			int i;
			if (!vf_case("%s single code symbol %d, p_n=%d plen/psingle=%d bits=%u/%u tail=%s", M->name, csingles[ci], pns[pi], plens[li], v, nb, tail ? "ff" : "00")) continue;
			ref_bw_init(&w, SB, sizeof SB);
			ref_bw_put(&w, 5, 16);
			ref_bw_put(&w, 0, 5); ref_bw_put(&w, 0, 5);
			ref_bw_put(&w, 0, 9); ref_bw_put(&w, csingles[ci], 9);
			ref_bw_put(&w, pns[pi], M->pbits);
			if (pns[pi] == 0) ref_bw_put(&w, (uint32_t) (li == 0 ? 0 : li == 6 ? pmaxn : M->np - 3 + (int) li), M->pbits);
			else for (i = 0; i < pns[pi]; ++i) {
				int L = plens[li];
				if (L < 7) ref_bw_put(&w, L, 3);
				else { int k; ref_bw_put(&w, 7, 3); for (k = 7; k < L; ++k) ref_bw_put(&w, 1, 1); ref_bw_put(&w, 0, 1); }
			}
			sl = with_tail(&w, v, nb, tail);
			fuzz_all_schedules(M->name, SB, sl, nb <= 4);
			vf_nontrivial(vf_hash(SB, sl, 8));
		}
	} else if (!strcmp(VF.space, "pm2grammar")) {
		/* num_codes x min_len x length_bits over their full ranges; length fields all-equal to each value the
		 * width allows (boundary set); then every bit string up to maxbits + tails */
		int maxbits = atoi(vf_extra("maxbits", "8"));
		unsigned n, m, wd, fv, nb, v, tail;
		for (n = 0; n < 32; ++n)
		for (m = 0; m < 8; ++m)
		for (wd = 0; wd < 8; ++wd)
		for (fv = 0; fv < 3; ++fv)
		for (nb = 0; nb <= (unsigned) maxbits; ++nb)
		for (v = 0; v < (1u << nb); ++v)
		for (tail = 0; tail < 2; ++tail) {
			ref_bw w;
			size_t sl;
			unsigned i, field;
			if (m == 0 && (wd || fv)) continue;
			if (wd == 0 && fv) continue;
			field = fv == 0 ? 1 : fv == 1 ? (1u << wd) - 1 : (1u << wd) / 2;
			if (!vf_case("pm2 num_codes=%u min_len=%u length_bits=%u fields=%u bits=%u/%u tail=%s", n, m, wd, field, v, nb, tail ? "ff" : "00")) continue;
			ref_bw_init(&w, SB, sizeof SB);
			ref_bw_put(&w, 0, 1);
			ref_bw_put(&w, n, 5); ref_bw_put(&w, m, 3);
			if (m) { ref_bw_put(&w, wd, 3); for (i = 0; i < n; ++i) ref_bw_put(&w, (i % 3 == 2 && fv == 2) ? 0 : field, wd); }
			sl = with_tail(&w, v, nb, tail);
			fuzz_all_schedules("-pm2-", SB, sl, nb <= 2);
			vf_nontrivial(vf_hash(SB, sl, 9));
		}
	} else if (!strcmp(VF.space, "pm1grammar")) {
		/* all 32 headers x every command prefix of 'maxbits' bits + tails */
		int maxbits = atoi(vf_extra("maxbits", "12"));
		unsigned h, v, tail, pre;
		for (h = 0; h < 32; ++h)
		for (pre = 0; pre < 2; ++pre)
		for (v = 0; v < (1u << maxbits); ++v)
		for (tail = 0; tail < 2; ++tail) {
			ref_bw w;
			size_t sl;
			if (!vf_case("pm1 header=%u %s prefix bits=%u/%d tail=%s", h, pre ? "after a block of 3 bytes" : "at start", v, maxbits, tail ? "ff" : "00")) continue;
			ref_bw_init(&w, SB, sizeof SB);
			ref_bw_put(&w, h, 5);
			if (pre) { ref_bw_put(&w, 1, 1); ref_bw_put(&w, 2, 2); }   /* byte block of 3: class/positions come from the prefix bits */
			sl = with_tail(&w, v, maxbits, tail);
			fuzz_all_schedules("-pm1-", SB, sl, (v & 63) == 0);
			vf_nontrivial(vf_hash(SB, sl, 10));
		}
	} else if (!strcmp(VF.space, "lh1bits")) {
		int maxbits = atoi(vf_extra("maxbits", "14"));
		unsigned nb, v, tail;
		for (nb = 0; nb <= (unsigned) maxbits; ++nb)
		for (v = 0; v < (1u << nb); ++v)
		for (tail = 0; tail < 2; ++tail) {
			ref_bw w;
			size_t sl;
			if (!vf_case("lh1 bits=%u/%u tail=%s", v, nb, tail ? "ff" : "00")) continue;
			ref_bw_init(&w, SB, sizeof SB);
			sl = with_tail(&w, v, nb, tail);
			fuzz_all_schedules("-lh1-", SB, sl, nb <= 6);
			vf_nontrivial(vf_hash(SB, sl, 11));
		}
	} else if (!strcmp(VF.space, "lh1long")) {
		/* deep adaptive-tree states: valid prefixes that use 312..314 different codes once each (three orders), two rounds of
		 * them, and a staircase of counts, each followed by EVERY byte x 4 second bytes of arbitrary tail */
		static const uint8_t second[4] = { 0x00, 0xFF, 0x55, 0xAA };
		static ref_lh1_tree T;
		int g, k, round, b0, b1;
		for (g = 0; g < 4; ++g)
		for (round = 0; round < 2; ++round)
		for (k = 312; k <= 314; ++k)
		for (b0 = 0; b0 < 256; ++b0) {
			ref_bw w;
			size_t sl;
			long i, n = (long) round * 314 + k;
			if (g == 3 && (round || k != 312)) continue;
			if (!vf_case("lh1 prefix order %d, %ld symbols, then byte %02x and 4 second bytes", g, n, b0)) continue;
			ref_bw_init(&w, SB, sizeof SB);
			ref_lh1_start(&T);
			if (g < 3) {
				for (i = 0; i < n; ++i) {
					int sym = g == 0 ? (int) (i % 314) : g == 1 ? (int) (313 - i % 314) : (int) ((i * 37) % 314);
					ref_lh1_put_symbol(&T, &w, sym);
					if (sym >= 256) ref_lh1_put_position(&w, (unsigned) (i * 7 + 3) % 4096);
				}
			} else {
				int s2, r;
				for (s2 = 0; s2 < 120; ++s2) for (r = 0; r <= s2; ++r) ref_lh1_put_symbol(&T, &w, s2);
			}
			sl = ref_bw_bytes(&w);
			/* the tail starts on the next byte boundary: the padding bits are part of the arbitrary input */
			for (b1 = 0; b1 < 4; ++b1) {
				SB[sl] = (uint8_t) b0; SB[sl + 1] = second[b1]; SB[sl + 2] = second[b1];
				(void) fuzz_run("-lh1-", SB, sl + 3, 1u << 20, 2, 0);
				(void) fuzz_run("-lh1-", SB, sl + 3, 1u << 20, 3, b1 == 0 ? 1 : 0);
			}
			vf_nontrivial(vf_mix(vf_hash(SB, sl, 12), b0));
		}
	} else if (!strcmp(VF.space, "subst")) {
		/* every single-byte substitution (all 255 values) and every truncation of the valid streams listed in
		 * a file: lines "method hexstream" */
		const char *path = vf_extra("streams", "");
		FILE *f = fopen(path, "r");
		static char line[70000];
		char method[16];
		int stride = atoi(vf_extra("stride", "1"));
		long ln = 0;
		if (!f) { printf("HARNESS cannot open stream list %s\n", path); vf_done(); return 0; }
		while (fgets(line, sizeof line, f)) {
			static uint8_t s[32768], t[32768];
			size_t n = 0, i, pos;
			char *hx = strchr(line, ' ');
			unsigned val;
			if (!hx) continue;
			*hx++ = 0;
			snprintf(method, sizeof method, "%s", line);
			while (hx[0] && hx[1] && sscanf(hx, "%2x", &val) == 1 && n < sizeof s) { s[n++] = (uint8_t) val; hx += 2; }
			if ((ln++ % stride) != 0) continue;
			for (pos = 0; pos < n && pos < 96; ++pos) {
				if (!vf_case("%s stream #%ld (%zu bytes) byte %zu: all 255 substitutions, truncation", method, ln - 1, n, pos)) continue;
				for (val = 1; val < 256; ++val) {
					memcpy(t, s, n);
					t[pos] ^= (uint8_t) val;
					fuzz_run(method, t, n, 65536, 2, 0);
					fuzz_run(method, t, n, 1 + pos, 0, bitreader_method(method));
				}
				fuzz_run(method, s, pos, 65536, 2, 0);
				for (i = 0; i < 2; ++i) { memcpy(t, s, pos); memset(t + pos, i ? 0xFF : 0, 40); fuzz_run(method, t, pos + 40, 65536, 3, 0); }
				vf_nontrivial(vf_mix(vf_hash(s, n, 3), pos));
				vf_outcome(vf_mix(vf_hash(s, n, 3), pos));
			}
		}
		fclose(f);
	} else {
		fprintf(stderr, "unknown space %s\n", VF.space);
		return 2;
	}
	vf_done();
	return 0;
}
