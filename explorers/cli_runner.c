/* E4 batch runner: runs the real CLI main() (src/ compiled with -Dmain=lhasa_cli_main -DTEST_BUILD) in a child
 * process per case, inside a sandbox prepared by the Python driver, with every path-taking libc call of the tool
 * and library logged and resolved at call time.
 *
 * protocol (stdin, one case per line, fields separated by 0x1f):
 *   sandbox_dir 0x1f uid(0 = keep) 0x1f timeout_s 0x1f argv0 0x1f argv1 ...
 * for each case the runner prints "done <status>" on stdout where status is exit:N, signal:N or timeout. */
#define _GNU_SOURCE
#include <sys/resource.h>
#include <signal.h>
#include <stdio.h>
#include <stdlib.h>
#include <string.h>
#include <unistd.h>
#include <fcntl.h>
#include <errno.h>
#include <signal.h>
#include <stdarg.h>
#include <limits.h>
#include <utime.h>
#include <sys/types.h>
#include <sys/stat.h>
#include <sys/wait.h>
#include <sys/time.h>

int lhasa_cli_main(int argc, char **argv);

#define LOGFD 100
static int LOGGING;

/* ------------------------------------------------------------------ path resolution at call time */

static void resolve(const char *path, int follow, char *out, size_t cap)
{
	char tmp[PATH_MAX], dirbuf[PATH_MAX], real[PATH_MAX];
	const char *base;
	char *slash;
	int depth = 0;
	snprintf(tmp, sizeof tmp, "%s", path);
	for (;;) {
		size_t L = strlen(tmp);
		while (L > 1 && tmp[L - 1] == '/') tmp[--L] = 0;
		slash = strrchr(tmp, '/');
		if (slash) {
			if (slash == tmp) snprintf(dirbuf, sizeof dirbuf, "/");
			else { *slash = 0; snprintf(dirbuf, sizeof dirbuf, "%s", tmp); *slash = '/'; }
			base = slash + 1;
		} else { snprintf(dirbuf, sizeof dirbuf, "."); base = tmp; }
		if (!realpath(dirbuf, real)) { snprintf(out, cap, "!noparent:%s", path); return; }
		if (!strcmp(base, "..") || !strcmp(base, ".") || base[0] == 0) {
			char full[PATH_MAX];
			snprintf(full, sizeof full, "%s/%s", real, base);
			if (realpath(full, out) == NULL) snprintf(out, cap, "%s/%s", real, base);
			return;
		}
		snprintf(out, cap, "%s%s%s", real, strcmp(real, "/") ? "/" : "", base);
		if (follow && depth < 16) {
			char link[PATH_MAX];
			ssize_t n = readlink(out, link, sizeof link - 1);
			if (n > 0) {
				link[n] = 0;
				if (link[0] == '/') snprintf(tmp, sizeof tmp, "%s", link);
				else snprintf(tmp, sizeof tmp, "%s/%s", real, link);
				++depth;
				continue;
			}
		}
		return;
	}
}

static size_t esc(char *dst, size_t cap, const char *src)
{
	size_t o = 0, i;
	for (i = 0; src[i] && o + 8 < cap; ++i) {
		unsigned char c = (unsigned char) src[i];
		if (c < 0x20 || c >= 0x7f || c == '\\') o += (size_t) snprintf(dst + o, cap - o, "\\x%02x", c);
		else dst[o++] = (char) c;
	}
	dst[o] = 0;
	return o;
}

/* one log line: op TAB path TAB resolved TAB extra TAB result TAB errno */
static void emit(const char *op, const char *path, const char *resolved, const char *extra, long result, int err)
{
	static char line[8 * PATH_MAX];
	size_t o = 0;
	o += (size_t) snprintf(line + o, sizeof line - o, "%s\t", op);
	o += esc(line + o, sizeof line - o, path);
	line[o++] = '\t';
	o += esc(line + o, sizeof line - o, resolved);
	line[o++] = '\t';
	o += esc(line + o, sizeof line - o, extra);
	o += (size_t) snprintf(line + o, sizeof line - o, "\t%ld\t%d\n", result, err);
	if (write(LOGFD, line, o) < 0) { }
}

/* ------------------------------------------------------------------ wrapped libc entry points */

int __real_open(const char *p, int flags, ...);
int __wrap_open(const char *p, int flags, ...)
{
	mode_t mode = 0;
	int r, e;
	char extra[64];
	char pre[PATH_MAX + 32];
	if (flags & O_CREAT) { va_list ap; va_start(ap, flags); mode = (mode_t) va_arg(ap, int); va_end(ap); }
	/* resolve before the call: afterwards the object exists and a dangling link can no longer be told apart */
	if (LOGGING) resolve(p, !(flags & O_NOFOLLOW) && !(flags & O_EXCL), pre, sizeof pre);
	r = __real_open(p, flags, mode);
	e = errno;
	if (LOGGING) {
		snprintf(extra, sizeof extra, "flags=%s%s%s%s mode=%o", (flags & O_ACCMODE) == O_RDONLY ? "r" : "w", flags & O_CREAT ? "c" : "", flags & O_EXCL ? "x" : "", flags & O_TRUNC ? "t" : "", (unsigned) mode);
		emit("open", p, pre, extra, r, r < 0 ? e : 0);
	}
	errno = e;
	return r;
}

FILE *__real_fopen(const char *p, const char *m);
FILE *__wrap_fopen(const char *p, const char *m)
{
	char pre[PATH_MAX + 32];
	FILE *f;
	int e;
	if (LOGGING) resolve(p, 1, pre, sizeof pre);
	f = __real_fopen(p, m);
	e = errno;
	if (LOGGING) {
		char extra[32];
		snprintf(extra, sizeof extra, "mode=%s", m);
		emit("fopen", p, pre, extra, f ? 0 : -1, f ? 0 : e);
	}
	errno = e;
	return f;
}

#define WRAP1(name, follow, proto, call, fmt, ...) \
	int __real_##name proto; \
	int __wrap_##name proto { char extra[96]; int r, e; char pre[PATH_MAX + 32]; \
		if (LOGGING) resolve(p, follow, pre, sizeof pre); \
		r = __real_##name call; e = errno; \
		if (LOGGING) { snprintf(extra, sizeof extra, fmt, __VA_ARGS__); emit(#name, p, pre, extra, r, r < 0 ? e : 0); } \
		errno = e; return r; }

WRAP1(mkdir, 0, (const char *p, mode_t m), (p, m), "mode=%o", (unsigned) m)
WRAP1(rmdir, 0, (const char *p), (p), "%s", "")
WRAP1(unlink, 0, (const char *p), (p), "%s", "")
WRAP1(remove, 0, (const char *p), (p), "%s", "")
WRAP1(chmod, 1, (const char *p, mode_t m), (p, m), "mode=%o", (unsigned) m)
WRAP1(chown, 1, (const char *p, uid_t u, gid_t g), (p, u, g), "uid=%d gid=%d", (int) u, (int) g)
WRAP1(lchown, 0, (const char *p, uid_t u, gid_t g), (p, u, g), "uid=%d gid=%d", (int) u, (int) g)
WRAP1(utime, 1, (const char *p, const struct utimbuf *t), (p, t), "mtime=%ld", t ? (long) t->modtime : -1L)
WRAP1(truncate, 1, (const char *p, off_t l), (p, l), "len=%ld", (long) l)
WRAP1(creat, 1, (const char *p, mode_t m), (p, m), "mode=%o", (unsigned) m)
WRAP1(mknod, 0, (const char *p, mode_t m, dev_t d), (p, m, d), "mode=%o", (unsigned) m)

int __real_symlink(const char *target, const char *p);
int __wrap_symlink(const char *target, const char *p)
{
	char pre[PATH_MAX + 32];
	int r, e;
	if (LOGGING) resolve(p, 0, pre, sizeof pre);
	r = __real_symlink(target, p);
	e = errno;
	if (LOGGING) {
		static char extra[PATH_MAX + 16];
		snprintf(extra, sizeof extra, "target=%s", target);
		emit("symlink", p, pre, extra, r, r < 0 ? e : 0);
	}
	errno = e;
	return r;
}

int __real_rename(const char *a, const char *p);
int __wrap_rename(const char *a, const char *p)
{
	char pre[PATH_MAX + 32], pre2[PATH_MAX + 32];
	int r, e;
	if (LOGGING) { resolve(p, 0, pre, sizeof pre); resolve(a, 0, pre2, sizeof pre2); }
	r = __real_rename(a, p);
	e = errno;
	if (LOGGING) {
		emit("rename", p, pre, "to", r, r < 0 ? e : 0);
		emit("rename", a, pre2, "from", r, r < 0 ? e : 0);
	}
	errno = e;
	return r;
}

int __real_link(const char *a, const char *p);
int __wrap_link(const char *a, const char *p)
{
	char pre[PATH_MAX + 32];
	int r, e;
	if (LOGGING) resolve(p, 0, pre, sizeof pre);
	r = __real_link(a, p);
	e = errno;
	if (LOGGING) {
		emit("link", p, pre, "new", r, r < 0 ? e : 0);
	}
	errno = e;
	return r;
}

/* descriptor-based mutations: logged so that the driver sees them (they act on an object opened earlier) */
int __real_fchmod(int fd, mode_t m);
int __wrap_fchmod(int fd, mode_t m)
{
	int r = __real_fchmod(fd, m), e = errno;
	if (LOGGING) { char ex[64], fdn[32]; snprintf(ex, sizeof ex, "mode=%o", (unsigned) m); snprintf(fdn, sizeof fdn, "fd=%d", fd); emit("fchmod", fdn, fdn, ex, r, r < 0 ? e : 0); }
	errno = e;
	return r;
}
int __real_fchown(int fd, uid_t u, gid_t g);
int __wrap_fchown(int fd, uid_t u, gid_t g)
{
	int r = __real_fchown(fd, u, g), e = errno;
	if (LOGGING) { char ex[64], fdn[32]; snprintf(ex, sizeof ex, "uid=%d gid=%d", (int) u, (int) g); snprintf(fdn, sizeof fdn, "fd=%d", fd); emit("fchown", fdn, fdn, ex, r, r < 0 ? e : 0); }
	errno = e;
	return r;
}

/* ------------------------------------------------------------------ runner */

static void child(char *dir, int uid, int argc, char **argv)
{
	char p[PATH_MAX];
	int fd, rc;
	snprintf(p, sizeof p, "%s/root", dir);
	if (chdir(p)) _exit(120);
	if (access("../stdin-pipe", F_OK) == 0) {
		/* standard input is a real pipe fed by a writer process */
		int pfd[2];
		if (pipe(pfd)) _exit(121);
		if (fork() == 0) {
			char b[4096];
			ssize_t n;
			int in = __real_open("../stdin", O_RDONLY);
			close(pfd[0]);
			signal(SIGPIPE, SIG_DFL);
			while (in >= 0 && (n = read(in, b, sizeof b)) > 0) if (write(pfd[1], b, (size_t) n) != n) break;
			_exit(0);
		}
		close(pfd[1]);
		dup2(pfd[0], 0); close(pfd[0]);
	} else {
		fd = __real_open("../stdin", O_RDONLY); if (fd < 0) _exit(121); dup2(fd, 0); close(fd);
	}
	fd = __real_open("../stdout", O_WRONLY | O_CREAT | O_TRUNC, 0666); if (fd < 0) _exit(122); dup2(fd, 1); close(fd);
	if (access("../stdout-full", F_OK) == 0) { fd = __real_open("/dev/full", O_WRONLY); if (fd >= 0) { dup2(fd, 1); close(fd); } }       /* every write to standard output fails (ENOSPC) */
	if (access("../stdout-closed", F_OK) == 0) close(1);
	fd = __real_open("../stderr", O_WRONLY | O_CREAT | O_TRUNC, 0666); if (fd < 0) _exit(123); dup2(fd, 2); close(fd);
	fd = __real_open("../oplog", O_WRONLY | O_CREAT | O_TRUNC | O_APPEND, 0666); if (fd < 0) _exit(124); dup2(fd, LOGFD); close(fd);
	umask(022);
	{
		/* environment answers chosen by the case: "../umask" (octal), "../nofile" (descriptor limit), "../fsize" (file size limit in
		 * bytes; writes beyond it fail with EFBIG, the signal is ignored) */
		FILE *mf;
		unsigned v;
		if ((mf = fopen("../umask", "r")) != NULL) { if (fscanf(mf, "%o", &v) == 1) umask((mode_t) v); fclose(mf); }
		if ((mf = fopen("../nofile", "r")) != NULL) { if (fscanf(mf, "%u", &v) == 1) { struct rlimit rl; rl.rlim_cur = rl.rlim_max = v; setrlimit(RLIMIT_NOFILE, &rl); } fclose(mf); }
		if ((mf = fopen("../fsize", "r")) != NULL) { if (fscanf(mf, "%u", &v) == 1) { struct rlimit rl; rl.rlim_cur = rl.rlim_max = v; signal(SIGXFSZ, SIG_IGN); setrlimit(RLIMIT_FSIZE, &rl); } fclose(mf); }
	}
	if (uid) { if (setgroups(0, NULL) || setgid((gid_t) uid) || setuid((uid_t) uid)) _exit(125); }
	LOGGING = 1;
	rc = lhasa_cli_main(argc, argv);
	LOGGING = 0;
	fflush(stdout); fflush(stderr);
	_exit(rc & 0xff);
}

#include <grp.h>

int main(void)
{
	static char line[1 << 16];
	setvbuf(stdout, NULL, _IOLBF, 0);
	while (fgets(line, sizeof line, stdin)) {
		char *argv[64], *f[70];
		int nf = 0, argc = 0, uid, timeout, status = 0, i;
		pid_t pid;
		char *s = line;
		size_t L = strlen(line);
		if (L && line[L - 1] == '\n') line[--L] = 0;
		while (nf < 69) {
			char *q = strchr(s, 0x1f);
			f[nf++] = s;
			if (!q) break;
			*q = 0; s = q + 1;
		}
		if (nf < 4) { printf("done badline\n"); continue; }
		uid = atoi(f[1]); timeout = atoi(f[2]);
		for (i = 3; i < nf && argc < 63; ++i) argv[argc++] = f[i];
		argv[argc] = NULL;
		pid = fork();
		if (pid == 0) child(f[0], uid, argc, argv);
		{
			int waited = 0;
			struct timeval t0, t1;
			gettimeofday(&t0, NULL);
			for (;;) {
				pid_t r = waitpid(pid, &status, WNOHANG);
				if (r == pid) { waited = 1; break; }
				gettimeofday(&t1, NULL);
				if (t1.tv_sec - t0.tv_sec > timeout) break;
				usleep(200);
			}
			if (!waited) { kill(pid, SIGKILL); waitpid(pid, &status, 0); printf("done timeout\n"); }
			else if (WIFEXITED(status)) printf("done exit:%d\n", WEXITSTATUS(status));
			else printf("done signal:%d\n", WTERMSIG(status));
		}
	}
	return 0;
}
