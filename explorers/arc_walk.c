/* E2: whole-archive walks over every stream kind.  Spaces: kinds (C16a + C13a), sfx (C16b/c), extreme (C13b/c),
 * verdict (C07).  The 'prop' argument selects which oracle reports. */
#include "arc_common.h"
#include "arcbuild.h"
#include <setjmp.h>
#include <sys/stat.h>
#include <malloc.h>

/* ------------------------------------------------------------------ monitors (C13) */

static size_t LIVE, PEAK;
static int TRACK;
/* release balance (C20, argument leaks=1): allocations made by the library between the creation of the input stream and the
 * return of lha_input_stream_free */
static long BAL;
static int BTRACK, LEAKS;
static int KEEP_LIVE;          /* the live-heap counter runs on over several archives handled one after another */
void *__real_malloc(size_t n);
void *__real_calloc(size_t a, size_t b);
void *__real_realloc(void *p, size_t n);
void __real_free(void *p);
char *__real_strdup(const char *s);
static void live_add(void *p) { if (p && BTRACK) ++BAL; if (p && TRACK) { LIVE += malloc_usable_size(p); if (LIVE > PEAK) PEAK = LIVE; } }
static void live_sub(void *p) { if (p && BTRACK) --BAL; if (p && TRACK) { size_t u = malloc_usable_size(p); LIVE = LIVE > u ? LIVE - u : 0; } }
void *__wrap_malloc(size_t n) { void *p = __real_malloc(n); live_add(p); return p; }
void *__wrap_calloc(size_t a, size_t b) { void *p = __real_calloc(a, b); live_add(p); return p; }
void *__wrap_realloc(void *q, size_t n) { void *p; live_sub(q); p = __real_realloc(q, n); live_add(p ? p : (n ? q : NULL)); return p; }
void __wrap_free(void *p) { live_sub(p); __real_free(p); }
char *__wrap_strdup(const char *s) { char *p = __real_strdup(s); live_add(p); return p; }

/* FILE-kind source calls */
static unsigned long F_READS, F_ZERO, F_SEEKS;
size_t __real_fread(void *p, size_t s, size_t n, FILE *f);
int __real_fseek(FILE *f, long off, int wh);
size_t __wrap_fread(void *p, size_t s, size_t n, FILE *f)
{
	size_t r = __real_fread(p, s, n, f);
	++F_READS;
	if (r == 0) ++F_ZERO;
	return r;
}
int __wrap_fseek(FILE *f, long off, int wh) { ++F_SEEKS; return __real_fseek(f, off, wh); }

static sigjmp_buf ESCAPE;
static int ESCAPE_ARMED;
static unsigned long CALL_ZERO_BASE;        /* zero-progress count at the start of the current API call */
static unsigned long CALL_BUDGET;
static mem_stream *CUR_MS;

static int budget_answer(void *u, size_t asked, size_t avail)
{
	mem_stream *m = (mem_stream *) u;
	(void) asked;
	if (avail == 0 && ESCAPE_ARMED && m->zero_reads - CALL_ZERO_BASE > CALL_BUDGET + 64) {
		/* the call keeps asking a source that has nothing left: leave it (reader state is abandoned) */
		siglongjmp(ESCAPE, 1);
	}
	return (int) (avail > 0x7fffffff ? 0x7fffffff : avail);
}

/* ------------------------------------------------------------------ stream kinds */

enum { K_FILE, K_PIPE, K_NOSKIP, K_SKIPFAIL, K_SEEKLIKE, K_COUNT };
static const char *KIND_NAME[K_COUNT] = { "seekable-FILE", "pipe-FILE", "callbacks-no-skip", "callbacks-skip-fails-past-end", "callbacks-seek-like-skip" };

typedef struct {
	LHAInputStream *st;
	mem_stream ms;
	FILE *fp;
	char path[256];
} src_t;

static int src_open(src_t *s, int kind, const uint8_t *a, size_t n)
{
	memset(s, 0, sizeof *s);
	if (kind == K_FILE) {
		snprintf(s->path, sizeof s->path, "arcwalk.%d.bin", (int) getpid());
		s->fp = fopen(s->path, "wb");
		if (!s->fp) return 0;
		if (n && fwrite(a, 1, n, s->fp) != n) return 0;
		fclose(s->fp);
		s->fp = fopen(s->path, "rb");
		if (!s->fp) return 0;
		s->st = lha_input_stream_from_FILE(s->fp);
	} else if (kind == K_PIPE) {
		int fd[2];
		size_t off = 0;
		if (pipe(fd)) return 0;
		fcntl(fd[1], F_SETPIPE_SZ, 1 << 20);
		if (n > (1u << 20) - 4096) { close(fd[0]); close(fd[1]); return 0; }
		while (off < n) { ssize_t w = write(fd[1], a + off, n - off); if (w <= 0) break; off += (size_t) w; }
		close(fd[1]);
		s->fp = fdopen(fd[0], "rb");
		s->st = lha_input_stream_from_FILE(s->fp);
	} else {
		s->st = mem_open(&s->ms, a, n, kind == K_NOSKIP ? 0 : kind == K_SKIPFAIL ? 1 : 2);
		s->ms.answer = budget_answer; s->ms.answer_u = &s->ms;
		CUR_MS = &s->ms;
	}
	return s->st != NULL;
}

static void src_close(src_t *s, int abandoned)
{
	if (!abandoned && s->st) lha_input_stream_free(s->st);
	if (s->fp) fclose(s->fp);
	if (s->path[0]) unlink(s->path);
	CUR_MS = NULL;
}

/* ------------------------------------------------------------------ walks */

typedef struct {
	int members;
	uint64_t hdr[AB_MAXMEM];       /* per member: header hash */
	uint64_t body[AB_MAXMEM];      /* per member: hash of bytes read / verdict */
	size_t body_len[AB_MAXMEM];
	int verdict[AB_MAXMEM];
	int hang;                      /* zero-progress loop escaped */
	unsigned long max_zero_per_call;
	size_t peak;
} obs_t;

static unsigned long zero_now(int kind) { return kind >= K_NOSKIP && CUR_MS ? CUR_MS->zero_reads : F_ZERO; }

#define API(call_budget, stmt) do { \
		unsigned long z0_ = zero_now(kind), dz_; \
		CALL_ZERO_BASE = z0_; CALL_BUDGET = (call_budget); \
		stmt; \
		dz_ = zero_now(kind) - z0_; \
		if (dz_ > o->max_zero_per_call) o->max_zero_per_call = dz_; \
		if (dz_ > 8 + (call_budget)) over_budget = 1; \
	} while (0)

/* mode 0 list, 1 read all (reads of 'piece' bytes), 2 check all */
static int walk(int kind, const uint8_t *a, size_t n, int mode, size_t piece, obs_t *o)
{
	src_t s;
	LHAReader *rd = NULL;
	LHAFileHeader *h;
	int over_budget = 0;
	static uint8_t buf[8192];
	memset(o, 0, sizeof *o);
	if (!KEEP_LIVE) { LIVE = 0; PEAK = 0; }
	F_READS = F_ZERO = F_SEEKS = 0;
	BAL = 0; BTRACK = LEAKS;
	if (!src_open(&s, kind, a, n)) { BTRACK = 0; printf("HARNESS cannot open source kind %d\n", kind); return 0; }
	TRACK = 1;
	ESCAPE_ARMED = 1;
	if (sigsetjmp(ESCAPE, 0)) {
		TRACK = 0; ESCAPE_ARMED = 0; BTRACK = 0;
		o->hang = 1;
		o->peak = PEAK;
		src_close(&s, 1);
		return 1;
	}
	rd = lha_reader_new(s.st);
	/* calls made while no entry is current (before the first request, and after the end below) report failure */
	if (mode == 1) { if (lha_reader_read(rd, buf, 16) != 0) vf_viol("c08-call-without-entry", "read before the first entry returned data"); }
	else if (mode == 2) { if (lha_reader_check(rd, NULL, NULL) != 0) vf_viol("c08-call-without-entry", "check before the first entry reports success"); }
	else (void) lha_reader_current_is_fake(rd);
	for (;;) {
		API(0, h = lha_reader_next_file(rd));
		if (!h) break;
		if (o->members >= AB_MAXMEM) break;
		o->hdr[o->members] = header_hash(h);
		{ int b_ = BTRACK, t_ = TRACK; BTRACK = 0; TRACK = 0; vf_step(o->hdr[o->members]); BTRACK = b_; TRACK = t_; }   /* the harness's own hash set grows here */
		/* -pm1- is endless by specification: a member declaring gigabytes legitimately produces them; list it only */
		if (mode && h->length > (1u << 20) && !strcmp(h->compress_method, "-pm1-")) { ++o->members; continue; }
		if (mode == 1) {
			uint64_t bh = 0;
			size_t tot = 0, got;
			size_t declared = h->length;
			do {
				size_t left = declared > tot ? declared - tot : 0;
				API(piece < left ? piece : left, got = lha_reader_read(rd, buf, piece));
				bh = bytes_hash(buf, got, bh);
				tot += got;
				if (tot > declared) { if (!LEAKS) vf_viol("c13-output-exceeds-declared", "member %d produced %zu > declared %zu", o->members, tot, declared); break; }
			} while (got > 0);
			o->body[o->members] = bh; o->body_len[o->members] = tot;
		} else if (mode == 2) {
			int v;
			API(h->length, v = lha_reader_check(rd, NULL, NULL));
			o->verdict[o->members] = v;
			o->body[o->members] = (uint64_t) v + 10;
		}
		++o->members;
	}
	/* after the end: further requests keep reporting the end */
	{ int k; for (k = 0; k < 2; ++k) { API(0, h = lha_reader_next_file(rd)); if (h && !LEAKS) vf_viol("end-not-sticky", "a header was returned after the end of the archive"); } }
	if (mode == 1) { if (lha_reader_read(rd, buf, 16) != 0) vf_viol("c08-call-without-entry", "read after the end returned data"); }
	else if (mode == 2) { if (lha_reader_check(rd, NULL, NULL) != 0) vf_viol("c08-call-without-entry", "check after the end reports success"); }
	else (void) lha_reader_current_is_fake(rd);
	TRACK = 0; ESCAPE_ARMED = 0;
	o->peak = PEAK;
	lha_reader_free(rd);
	if (s.st) { lha_input_stream_free(s.st); s.st = NULL; }
	BTRACK = 0;
	if (LEAKS && BAL != 0)
		vf_viol("c20-leak-after-free", "%s, walk mode %d: %ld allocation(s) of the library still live after lha_reader_free and lha_input_stream_free", KIND_NAME[kind], mode, BAL);
	src_close(&s, 0);
	if (over_budget) o->hang = 2;
	return 1;
}

static uint64_t obs_hash(const obs_t *o)
{
	uint64_t h = (uint64_t) o->members;
	int i;
	for (i = 0; i < o->members; ++i) { h = vf_mix(h, o->hdr[i]); h = vf_mix(h, o->body[i]); h = vf_mix(h, o->body_len[i]); }
	return h;
}

/* ------------------------------------------------------------------ archives */

static ab_arc ARCS[16];   /* see build_archives */
static int NARCS;
static size_t SFX_AT[16];      /* offset of the first header */

static void build_archives(void)
{
	ab_arc *a;
	int i;
	NARCS = 0;
	/* 0: three files, levels 0/1/2, different methods */
	a = &ARCS[NARCS++]; ab_init(a, 1 << 20);
	ab_add(a, 0, 0, "-lh0-", "", "ONE.TXT", NULL, 300, 1, 0, 0, 0);
	ab_add(a, 1, 0, "-lh5-", "dir/", "two.txt", NULL, 3000, 2, 1, 0100644, 1262304000);
	ab_add(a, 2, 0, "-lz5-", "dir/sub/", "three.bin", NULL, 1500, 3, 1, 0100600, 1262304001);
	/* 1: every method, level 2 */
	a = &ARCS[NARCS++]; ab_init(a, 1 << 20);
	for (i = 0; i < 14; ++i) { char nm[16]; snprintf(nm, sizeof nm, "m%02d.dat", i); ab_add(a, 2, 0, ALL_METHODS[i], "", nm, NULL, 600 + 37 * (size_t) i, 10 + (unsigned) i, 0, 0, 1262304000); }
	/* 2: directories, files, links; level 1 */
	a = &ARCS[NARCS++]; ab_init(a, 1 << 20);
	ab_add(a, 1, 1, "-lhd-", "d/", "", NULL, 0, 0, 1, 040755, 1262304000);
	ab_add(a, 1, 0, "-lh1-", "d/", "f1", NULL, 900, 4, 1, 0100644, 1262304000);
	ab_add(a, 1, 2, "-lhd-", "d/", "ln", "f1", 0, 0, 1, 0120777, 1262304000);
	ab_add(a, 1, 0, "-pm2-", "", "top", NULL, 5000, 5, 1, 0100644, 1262304000);
	/* 3: level 3 */
	a = &ARCS[NARCS++]; ab_init(a, 1 << 20);
	ab_add(a, 3, 0, "-lh6-", "l3/", "a", NULL, 2000, 6, 1, 0100644, 1262304000);
	ab_add(a, 3, 1, "-lhd-", "l3/dir/", "", NULL, 0, 0, 1, 040700, 1262304000);
	ab_add(a, 3, 0, "-lh0-", "l3/dir/", "b", NULL, 10, 7, 0, 0, 1262304000);
	/* 4: SFX stub + two members */
	a = &ARCS[NARCS++]; ab_init(a, 1 << 20);
	ab_stub(a, 777, 1);
	SFX_AT[4] = a->n;
	ab_add(a, 0, 0, "-lh5-", "", "SFX1.DAT", NULL, 1200, 8, 0, 0, 0);
	ab_add(a, 1, 0, "-lzs-", "", "sfx2.dat", NULL, 800, 9, 0, 0, 0);
	/* 5: empty member, unknown method, zero-length compressed; level 0 */
	a = &ARCS[NARCS++]; ab_init(a, 1 << 20);
	ab_add(a, 0, 0, "-lh0-", "", "EMPTY", NULL, 0, 0, 0, 0, 0);
	ab_add(a, 1, 0, "-lh9-", "", "unknown.bin", NULL, 64, 11, 0, 0, 0);
	ab_add(a, 2, 0, "-pm1-", "", "last.pm1", NULL, 700, 12, 0, 0, 1262304000);
	/* 6: larger members crossing the read/progress blocks */
	a = &ARCS[NARCS++]; ab_init(a, 1 << 20);
	ab_add(a, 1, 0, "-lh0-", "", "big0", NULL, 5000, 13, 0, 0, 0);
	ab_add(a, 2, 0, "-lh7-", "", "big7", NULL, 70000, 14, 0, 0, 1262304000);
	ab_add(a, 0, 0, "-lz4-", "", "TAIL", NULL, 33, 15, 0, 0, 0);
	/* 7: MacLHA members: with a MacBinary envelope (data fork; resource fork only; length a multiple of 128), without one */
	a = &ARCS[NARCS++]; ab_init(a, 1 << 20);
	ab_add_mac(a, 2, "Read Me", 300, 40, 1, 1262304000);
	ab_add_mac(a, 2, "Icon", 0, 200, 1, 1262304000);
	ab_add_mac(a, 2, "Block.bin", 256, 0, 1, 1262304000);
	ab_add_mac(a, 2, "plain.txt", 500, 0, 0, 1262304000);
	ab_add_mac(a, 2, "tiny", 20, 0, 0, 1262304000);
}

/* expected observation of member i of archive a (complete data) */
static int member_matches(const ab_member *m, const obs_t *o, int idx, int mode, const char **why)
{
	*why = "";
	if (mode == 1 && m->kind == 0 && m->supported) {
		const uint8_t *want = m->visible ? m->visible : m->plain;
		size_t wl = m->visible ? m->visible_len : m->plain_len;
		if (o->body_len[idx] != wl || o->body[idx] != bytes_hash(want, wl, 0)) { *why = "member bytes differ from the plaintext"; return 0; }
	}
	if (mode == 2) {
		int want = m->kind != 0 ? 1 : m->supported;
		if (o->verdict[idx] != want) { *why = "verdict of an intact member"; return 0; }
	}
	return 1;
}

static void space_kinds(int prop)
{
	int ai, mode, kind;
	size_t cut;
	int stride_big = atoi(vf_extra("stride", "1"));
	build_archives();
	if (prop == 15) {
		/* C15, readers are independent: every archive is walked from a seekable file and from a pipe FIRST, before any other reader
		 * has run in this process; each case then runs readers of the other kinds and repeats the walk - it must observe the same */
		static uint64_t base[16][3][2];
		static int basem[16][3][2];
		int first, k2;
		obs_t o1;
		for (k2 = 0; k2 < 2; ++k2)
		for (ai = 0; ai < NARCS; ++ai) for (mode = 0; mode < 3; ++mode) {
			walk(k2 ? K_PIPE : K_FILE, ARCS[ai].buf, ARCS[ai].n, mode, 4096, &o1);
			base[ai][mode][k2] = obs_hash(&o1); basem[ai][mode][k2] = o1.members;
		}
		for (ai = 0; ai < NARCS; ++ai) for (mode = 0; mode < 3; ++mode)
		for (first = 0; first < K_COUNT; ++first)
		for (k2 = 0; k2 < 2; ++k2) {
			int target = k2 ? K_PIPE : K_FILE;
			if (first == target) continue;
			if (!vf_case("archive=%d walk=%d: a %s reader runs to the end, then a %s reader", ai, mode, KIND_NAME[first], KIND_NAME[target])) continue;
			walk(first, ARCS[ai].buf, ARCS[ai].n, mode, 4096, &o1);
			vf_step(obs_hash(&o1));
			walk(target, ARCS[ai].buf, ARCS[ai].n, mode, 4096, &o1);
			if (obs_hash(&o1) != base[ai][mode][k2])
				vf_viol("c15-earlier-reader-disturbs-later", "the %s reader yields %d members after a %s reader has run in the process, %d when it runs first (or differing headers/data/verdicts)",
				        KIND_NAME[target], o1.members, KIND_NAME[first], basem[ai][mode][k2]);
			vf_outcome(obs_hash(&o1));
			vf_nontrivial(vf_mix(ai * 3 + mode, first * 2 + k2 + 9000));
		}
		return;
	}
	for (ai = 0; ai < NARCS; ++ai) {
		ab_arc *a = &ARCS[ai];
		for (mode = 0; mode < 3; ++mode)
		for (cut = 0; cut <= a->n; ++cut) {
			obs_t o[K_COUNT];
			int i;
			/* big archives: every offset inside headers and at member borders, a stride through bulk data */
			if (a->n > 20000 && cut != a->n) {
				int near_edge = 0;
				for (i = 0; i < a->nm; ++i) {
					size_t hs = a->m[i].hdr_off, de = a->m[i].data_off + a->m[i].data_len;
					if (cut + 4 >= hs && cut <= a->m[i].data_off + 4) near_edge = 1;
					if (cut + 4 >= de && cut <= de + 4) near_edge = 1;
				}
				if (!near_edge && (cut % (997 * (size_t) stride_big)) != 0) continue;
			} else if (stride_big > 1 && cut != a->n && a->n > 3000) {
				int near_edge = 0;
				for (i = 0; i < a->nm; ++i) {
					size_t hs = a->m[i].hdr_off, de = a->m[i].data_off + a->m[i].data_len;
					if (cut + 2 >= hs && cut <= a->m[i].data_off + 2) near_edge = 1;
					if (cut + 2 >= de && cut <= de + 2) near_edge = 1;
				}
				if (!near_edge && (cut % (size_t) stride_big) != 0) continue;
			}
			if (!vf_case("archive=%d (%zu bytes, %d members) cut=%zu walk=%s all stream kinds", ai, a->n, a->nm, cut, mode == 0 ? "list" : mode == 1 ? "read" : "check")) continue;
			for (kind = 0; kind < K_COUNT; ++kind) {
				walk(kind, a->buf, cut, mode, mode == 1 ? 4096 : 0, &o[kind]);
				if (prop == 13) {
					if (o[kind].hang == 1) vf_viol("c13-zero-progress-loop", "%s: a call kept asking an exhausted source (walk %d, cut %zu)", KIND_NAME[kind], mode, cut);
					else if (o[kind].hang == 2) vf_viol("c13-budget", "%s: %lu zero-progress source calls in one API call (walk %d, cut %zu)", KIND_NAME[kind], o[kind].max_zero_per_call, mode, cut);
					if (o[kind].peak > (8u << 20) + 2 * cut) vf_viol("c13-heap", "%s: peak live heap %zu for %zu input bytes", KIND_NAME[kind], o[kind].peak, cut);
				}
			}
			if (prop == 16) {
				/* same members from every kind */
				for (kind = 1; kind < K_COUNT; ++kind) {
					if (o[kind].hang == 1) continue;       /* reported under C13 */
					if (obs_hash(&o[kind]) != obs_hash(&o[0]))
						vf_viol("c16-kinds-differ", "%s yields %d members, %s yields %d (or differing headers/data/verdicts)", KIND_NAME[kind], o[kind].members, KIND_NAME[0], o[0].members);
				}
				/* and equal to the reference for every member that is completely present */
				for (i = 0; i < a->nm; ++i) {
					const ab_member *m = &a->m[i];
					const char *why;
					int complete = m->data_off + m->data_len <= cut;
					int header_complete = m->hdr_off + m->hdr_len <= cut;
					/* (level 1 headers are followed by the member data inside the same size field: need only the header itself) */
					if (complete && (o[0].members <= i || !member_matches(m, &o[0], i, mode, &why)))
						vf_viol("c16-member-lost", "member %d is completely present but %s", i, o[0].members <= i ? "was not returned" : why);
					if (!header_complete && o[0].members > i && cut >= (ai == 4 ? SFX_AT[4] : 0))
						vf_viol("c16-phantom-member", "member %d returned although its header is cut at %zu", i, cut);
					if (header_complete && !complete && mode == 2 && m->kind == 0 && m->data_len > 0 && o[0].members > i && o[0].verdict[i] != 0)
						vf_viol("c07-truncated-good", "member %d with truncated data tested good", i);
				}
			}
			vf_outcome(obs_hash(&o[0]));
			vf_nontrivial(vf_mix(ai * 3 + mode, cut));
		}
	}
}

/* ------------------------------------------------------------------ SFX prefixes (C16 b, c) */

static int sig_free(const uint8_t *p, size_t n)
{
	size_t i;
	for (i = 0; i + 5 <= n; ++i) {
		if (p[i] == '-' && p[i + 4] == '-' && ((p[i + 1] == 'l') || (p[i + 1] == 'p' && p[i + 2] == 'm'))) return 0;
	}
	for (i = 0; i + 7 <= n; ++i) if (!memcmp(p + i, "LHA-SFX", 7)) return 0;
	for (i = 0; i + 12 <= n; ++i) if (!memcmp(p + i, "LhASFX V1.2,", 12)) return 0;
	return 1;
}

static void sfx_check(const uint8_t *pre, size_t plen, const ab_arc *a, int kind, const obs_t *base, const char *what)
{
	static uint8_t buf[600000];
	obs_t o;
	if (plen + a->n > sizeof buf) return;
	memcpy(buf, pre, plen);
	memcpy(buf + plen, a->buf, a->n);
	walk(kind, buf, plen + a->n, 1, 4096, &o);
	if (obs_hash(&o) != obs_hash(base))
		vf_viol("c16-sfx-prefix", "%s: %d members after the prefix, %d without (%s)", what, o.members, base->members, KIND_NAME[kind]);
	vf_outcome(obs_hash(&o));
}

static void space_sfx(void)
{
	static uint8_t pre[300000];
	static const char *frags[] = { "-l", "-lh5", "lh5-", "-p", "LHA-SF", "LHA-SFY", "LhASFX V1.2", "-lh", "-pm", "lz5-", "SFX", "-lz", "-lhX", "-l-5-",
	                               /* complete five-byte forms that differ from a signature in the case of a letter or in one character */
	                               "-LH5-", "-Lh0-", "-LHD-", "-LZ5-", "-LZS-", "-PM2-", "-Pm0-", "-pM1-", "-xh5-", "-qm2-", "_lh5-", "-Lz4-" };
	ab_arc *a;
	obs_t base[K_COUNT];
	size_t L;
	int fam, kind, k;
	unsigned fi;
	build_archives();
	a = &ARCS[0];
	for (kind = 0; kind < K_COUNT; ++kind) walk(kind, a->buf, a->n, 1, 4096, &base[kind]);
	/* every length 0..64, lengths around multiples of the 24-byte window, near the 256 KiB limit */
	for (fam = 0; fam < 3; ++fam)
	for (L = 0; L < 262144; ++L) {
		int want = L <= 64;
		for (k = 1; k <= 12 && !want; ++k) if (L + 2 >= 24u * (unsigned) k && L <= 24u * (unsigned) k + 2) want = 1;
		if (L >= 261120 - 40 && L < 261120) want = 1;
		if (L >= 1000 && L <= 1050) want = 1;
		if (!want) continue;
		for (kind = 1; kind <= 2; ++kind) {
			size_t i;
			if (!vf_case("clean prefix of %zu bytes, filler family %d, %s", L, fam, KIND_NAME[kind])) continue;
			for (i = 0; i < L; ++i) pre[i] = fam == 0 ? 0 : fam == 1 ? (uint8_t) ('A' + i % 23) : (uint8_t) (0x80 | (i * 37 % 127));
			sfx_check(pre, L, a, kind, &base[kind], "clean prefix");
			vf_nontrivial(vf_mix(L, fam * 8 + kind));
		}
	}
	/* the archive itself is a PMarc self-extractor: its stub holds the text '-pms-' in header position, which is not a header
	 * wherever in the stream it comes to lie */
	{
		static ab_arc a2;
		static obs_t base2[K_COUNT];
		static const char stub[] = "MZ PMarc self extractor \x1a\x00\x00-pms-\x00\x10SFX by PMSFX\r\n\x00\x00\x00\x00\x00\x00\x00\x00\x00\x00";
		if (!a2.buf) {
			a2.buf = malloc(a->n + 256); a2.cap = a->n + 256;
			memcpy(a2.buf, stub, sizeof stub - 1);
			memcpy(a2.buf + sizeof stub - 1, a->buf, a->n);
			a2.n = sizeof stub - 1 + a->n;
			for (kind = 0; kind < K_COUNT; ++kind) walk(kind, a2.buf, a2.n, 1, 4096, &base2[kind]);
		}
		if (vf_case("a PMarc self-extractor stub ('-pms-' in header position) in front of archive 0, all stream kinds"))
			for (kind = 0; kind < K_COUNT; ++kind)
				if (obs_hash(&base2[kind]) != obs_hash(&base[kind]))
					vf_viol("c16-sfx-prefix", "PMarc self-extractor stub: %d members after it, %d without (%s)", base2[kind].members, base[kind].members, KIND_NAME[kind]);
		for (fam = 0; fam < 3; ++fam)
		for (L = 0; L <= 1100; L += (L < 64 ? 1 : L < 1000 ? 117 : 25))
		for (kind = 1; kind <= 2; ++kind) {
			size_t i;
			if (!vf_case("clean prefix of %zu bytes in front of a PMarc self-extractor, filler family %d, %s", L, fam, KIND_NAME[kind])) continue;
			for (i = 0; i < L; ++i) pre[i] = fam == 0 ? 0 : fam == 1 ? (uint8_t) ('A' + i % 23) : (uint8_t) (0x80 | (i * 37 % 127));
			sfx_check(pre, L, &a2, kind, &base2[kind], "clean prefix before a PMarc self-extractor");
			vf_nontrivial(vf_mix(L, 700 + fam * 8 + kind));
		}
	}
	/* near-miss fragments at every offset of prefixes up to 40 bytes */
	for (fi = 0; fi < sizeof frags / sizeof *frags; ++fi)
	for (L = 1; L <= 40; ++L) {
		size_t fl = strlen(frags[fi]), off;
		for (off = 0; off + fl <= L; ++off)
		for (fam = 0; fam < 2; ++fam) {
			size_t i;
			for (i = 0; i < L; ++i) pre[i] = fam == 0 ? 0 : (uint8_t) ('A' + i % 23);
			memcpy(pre + off, frags[fi], fl);
			/* the statement's exclusion: no '-l??-' / '-pm?-' pattern and no marker, also not across the seam with the archive */
			{
				uint8_t tmp[64];
				memcpy(tmp, pre, L); memcpy(tmp + L, a->buf, 12);
				if (!sig_free(tmp, L + 1)) continue;
			}
			if (!vf_case("near-miss '%s' at %zu in a prefix of %zu (family %d)", frags[fi], off, L, fam)) continue;
			sfx_check(pre, L, a, K_NOSKIP, &base[K_NOSKIP], "near-miss fragment");
			vf_nontrivial(vf_mix(fi * 64 + L, off * 2 + fam));
		}
	}
	/* decoy: stub + marker + one decoy header + stub */
	{
		static const char *markers[2] = { "LHA-SFX", "LhASFX V1.2," };
		int mi;
		size_t moff, gap1, gap2;
		static uint8_t decoy[64];
		size_t dl;
		{
			ref_hdr f;
			memset(&f, 0, sizeof f);
			f.level = 0; memcpy(f.method, "-lh0-", 5); f.name = (const uint8_t *) "DECOY"; f.name_len = 5; f.area = (const uint8_t *) "";
			f.packed = 3; f.size = 3;
			dl = ref_hdr_encode(&f, decoy, sizeof decoy);
		}
		for (mi = 0; mi < 2; ++mi)
		for (moff = 0; moff < 48; ++moff)
		for (gap1 = 0; gap1 <= 30; gap1 += (gap1 < 4 ? 1 : 13))
		for (gap2 = 13; gap2 <= 40; gap2 += (gap2 < 16 ? 1 : 12)) {
			size_t o = 0, ml = strlen(markers[mi]), i;
			if (!vf_case("decoy: marker '%s' at %zu, %zu bytes to the decoy header, %zu bytes to the real archive", markers[mi], moff, gap1, gap2)) continue;
			for (i = 0; i < moff; ++i) pre[o++] = (uint8_t) ('a' + i % 7);
			memcpy(pre + o, markers[mi], ml); o += ml;
			for (i = 0; i < gap1; ++i) pre[o++] = 0x01;
			memcpy(pre + o, decoy, dl); o += dl;
			for (i = 0; i < gap2; ++i) pre[o++] = 0x02;
			for (kind = 1; kind <= 2; ++kind) sfx_check(pre, o, a, kind, &base[kind], "marker + decoy header");
			vf_nontrivial(vf_mix(mi * 64 + moff, gap1 * 64 + gap2));
		}
	}
}

/* ------------------------------------------------------------------ extreme length fields / endless input (C13 b, c) */

static void space_extreme(void)
{
	static uint8_t buf[400000];
	int kind, mode, level;
	unsigned k;
	/* level-3 header length: every power of two +-1; with and without the bytes present */
	for (k = 5; k <= 32; ++k)
	for (level = -1; level <= 1; ++level)
	for (mode = 0; mode < 2; ++mode)
	for (kind = 0; kind < K_COUNT; ++kind) {
		uint64_t hl = (k == 32 ? 0xFFFFFFFFull : (1ull << k)) + (uint64_t) (level);
		size_t n, present;
		obs_t o;
		ref_hdr f;
		if (hl > 0xFFFFFFFFull) continue;
		if (!vf_case("level-3 header declaring %llu bytes, %s, %s", (unsigned long long) hl, mode ? "300000 bytes follow" : "40 bytes follow", KIND_NAME[kind])) continue;
		memset(&f, 0, sizeof f);
		f.level = 3; memcpy(f.method, "-lh0-", 5); f.name = f.area = (const uint8_t *) "";
		f.ext[0].type = 1; f.ext[0].data = (const uint8_t *) "x"; f.ext[0].len = 1; f.next = 1;
		n = ref_hdr_encode(&f, buf, sizeof buf);
		buf[24] = (uint8_t) hl; buf[25] = (uint8_t) (hl >> 8); buf[26] = (uint8_t) (hl >> 16); buf[27] = (uint8_t) (hl >> 24);
		present = mode ? 300000 : n + 40;
		memset(buf + n, 0, present - n);
		walk(kind, buf, present, 0, 0, &o);
		if (o.hang) vf_viol("c13-zero-progress-loop", "%s: extreme level-3 length %llu", KIND_NAME[kind], (unsigned long long) hl);
		if (o.peak > (8u << 20) + 2 * present) vf_viol("c13-heap", "%s: peak live heap %zu for %zu input bytes (declared header %llu)", KIND_NAME[kind], o.peak, present, (unsigned long long) hl);
		vf_outcome(vf_mix(o.members, o.peak / 4096));
		vf_nontrivial(vf_mix(hl, mode * 8 + kind));
	}
	/* 4 GiB member sizes with no data; level-1 chains of maximal extended headers with and without the bytes */
	for (k = 0; k < 6; ++k)
	for (mode = 0; mode < 3; ++mode)
	for (kind = 0; kind < K_COUNT; ++kind) {
		static const uint32_t big[6] = { 0x7FFFFFFF, 0x80000000u, 0xFFFFFFFFu, 0xFFFFFFFEu, 0x10000, 0x40000000 };
		static uint8_t maxext[65535];
		ref_hdr f;
		size_t n;
		obs_t o;
		int walkmode = mode;
		if (!vf_case("member declaring %u compressed / %u original bytes with 10 bytes of data, walk %d, %s", big[k], big[(k + 1) % 6], walkmode, KIND_NAME[kind])) continue;
		memset(&f, 0, sizeof f);
		f.level = k % 3; memcpy(f.method, k & 1 ? "-lh5-" : "-lh0-", 5); f.name = (const uint8_t *) "BIG"; f.name_len = f.level <= 1 ? 3 : 0; f.area = (const uint8_t *) "";
		if (f.level == 2) { f.ext[0].type = 1; f.ext[0].data = (const uint8_t *) "BIG"; f.ext[0].len = 3; f.next = 1; }
		if (f.level == 1 && k >= 3) { memset(maxext, 'c', sizeof maxext); f.ext[0].type = 0x3F; f.ext[0].data = maxext; f.ext[0].len = 65532; f.next = 1; f.ext[1] = f.ext[0]; f.next = 2; }
		f.packed = big[k] - (f.level == 1 && f.next ? 2 * 65535 : 0); f.size = big[(k + 1) % 6];
		n = ref_hdr_encode(&f, buf, sizeof buf);
		memset(buf + n, 0x55, 10);
		walk(kind, buf, n + 10, walkmode, 4096, &o);
		if (o.hang) vf_viol("c13-zero-progress-loop", "%s: huge declared member, walk %d", KIND_NAME[kind], walkmode);
		if (o.peak > (8u << 20) + 2 * (n + 10)) vf_viol("c13-heap", "%s: peak live heap %zu for %zu input bytes", KIND_NAME[kind], o.peak, n + 10);
		vf_outcome(vf_mix(o.members, o.body_len[0]));
		vf_nontrivial(vf_mix(k * 16 + mode, kind));
	}
	/* many members whose decoder cannot start (MacLHA, >= 128 bytes declared, no data): nothing may pile up */
	for (k = 0; k < 3; ++k)
	for (mode = 1; mode < 3; ++mode)
	for (kind = 0; kind < K_COUNT; ++kind) {
		static const char *ms[3] = { "-lhx-", "-lh7-", "-lh5-" };
		size_t n = 0;
		int j;
		obs_t o;
		if (!vf_case("24 MacLHA %s members declaring 4096 bytes with no data, walk %d, %s", ms[k], mode, KIND_NAME[kind])) continue;
		for (j = 0; j < 24; ++j) {
			ref_hdr f;
			memset(&f, 0, sizeof f);
			f.level = 2; memcpy(f.method, ms[k], 5); f.os = 'm'; f.name = f.area = (const uint8_t *) "";
			f.ext[0].type = 1; f.ext[0].data = (const uint8_t *) "macmember"; f.ext[0].len = 9; f.next = 1;
			f.packed = 0; f.size = 4096; f.time_raw = 1262304000u;
			n += ref_hdr_encode(&f, buf + n, sizeof buf - n);
		}
		walk(kind, buf, n, mode, 4096, &o);
		if (o.hang) vf_viol("c13-zero-progress-loop", "%s: MacLHA members without data", KIND_NAME[kind]);
		if (o.peak > (8u << 20) + 2 * n) vf_viol("c13-heap", "%s: peak live heap %zu for %zu input bytes (24 %s members whose decoders cannot start)", KIND_NAME[kind], o.peak, n, ms[k]);
		vf_outcome(vf_mix(o.members, o.peak / 65536));
		vf_nontrivial(vf_mix(k * 16 + mode, 7000 + kind));
	}
	/* lead-in of 256 KiB +- 30 without a header */
	for (k = 0; k <= 60; k += 5)
	for (kind = 0; kind < K_COUNT; ++kind) {
		size_t n = 262144 - 30 + k;
		obs_t o;
		if (!vf_case("%zu bytes without any header, %s", n, KIND_NAME[kind])) continue;
		memset(buf, 'x', n);
		walk(kind, buf, n, 0, 0, &o);
		if (o.members) vf_viol("c16-phantom-member", "a member was returned from filler bytes");
		if (o.hang) vf_viol("c13-zero-progress-loop", "%s: header-less input", KIND_NAME[kind]);
		vf_nontrivial(vf_mix(n, kind));
	}
	/* extended headers whose own length field is extreme (level 3: 32 bits, level 2: 16 bits), after a well-formed name header */
	for (level = 2; level <= 3; ++level)
	for (k = 0; k < 24; ++k)
	for (kind = 0; kind < K_COUNT; kind += 2) {
		static const uint32_t ev[24] = { 0xFFFFFFFFu, 0xFFFFFFFEu, 0xFFFFFFFAu, 0xFFFFFFF9u, 0xFFFFFFFBu, 0xFFFFFFF0u, 0xFFFFFFE0u, 0xFFFFFF00u, 0x80000000u, 0x80000006u, 0x7FFFFFFFu, 0xFFFF0000u,
		                                 0x00010000u, 0x0000FFFFu, 0x0000FFFAu, 0x0000FFF9u, 0xFFFFFFFCu, 0xFFFFFFFDu, 0xFFFFFFF8u, 0xFFFFFFF7u, 0xFFFFFFF6u, 0xFFFFFFF5u, 0x40000000u, 0xC0000000u };
		ref_hdr f;
		size_t n, szw = level == 3 ? 4 : 2, at;
		obs_t o;
		if (!vf_case("level-%d header: name header, then an extended header whose length field is %08x, %s", level, ev[k], KIND_NAME[kind])) continue;
		memset(&f, 0, sizeof f);
		f.level = level; memcpy(f.method, "-lh0-", 5); f.name = f.area = (const uint8_t *) "";
		f.ext[0].type = 1; f.ext[0].data = (const uint8_t *) "n.txt"; f.ext[0].len = 5;
		f.ext[1].type = 0x7F; f.ext[1].data = (const uint8_t *) "abcd"; f.ext[1].len = 4; f.next = 2;
		f.packed = f.size = 0;
		n = ref_hdr_encode(&f, buf, sizeof buf);
		/* the size field in front of the second extended header sits at the end of the first one */
		at = (level == 3 ? 28 : 24) + szw + 1 + 5;
		buf[at] = (uint8_t) ev[k]; buf[at + 1] = (uint8_t) (ev[k] >> 8);
		if (szw == 4) { buf[at + 2] = (uint8_t) (ev[k] >> 16); buf[at + 3] = (uint8_t) (ev[k] >> 24); }
		memset(buf + n, 0, 64);
		walk(kind, buf, n + 64, 0, 0, &o);
		if (o.hang) vf_viol("c13-zero-progress-loop", "%s: extended header length field %08x", KIND_NAME[kind], ev[k]);
		if (o.peak > (8u << 20) + 2 * (n + 64)) vf_viol("c13-heap", "%s: peak live heap %zu (extended header length field %08x)", KIND_NAME[kind], o.peak, ev[k]);
		vf_outcome(vf_mix(o.members, k));
		vf_nontrivial(vf_mix(level * 32 + k, 9900 + kind));
	}
	/* a compressed size that, taken as a signed 32-bit number, is minus the header length (or minus a few bytes): a skip that went
	 * backwards would present the same member again and again; whatever follows the one header, at most one member exists */
	for (level = 0; level <= 2; ++level)
	for (k = 0; k < 8; ++k)
	for (kind = 0; kind < K_COUNT; ++kind) {
		ref_hdr f;
		size_t n;
		obs_t o;
		static const int back[8] = { 0, 1, 2, 5, 22, 24, 31, 64 };     /* 0: exactly the header length */
		if (!vf_case("level-%d member whose compressed size is 2^32 minus %s%d, 8 bytes of data, %s", level, back[k] ? "" : "the header length + ", back[k], KIND_NAME[kind])) continue;
		memset(&f, 0, sizeof f);
		f.level = level; memcpy(f.method, "-lh0-", 5); f.name = (const uint8_t *) "BACK"; f.name_len = level <= 1 ? 4 : 0; f.area = (const uint8_t *) "";
		if (level == 2) { f.ext[0].type = 1; f.ext[0].data = (const uint8_t *) "BACK"; f.ext[0].len = 4; f.next = 1; }
		f.packed = 0; f.size = 8;
		n = ref_hdr_encode(&f, buf, sizeof buf);
		f.packed = (uint32_t) (0u - (uint32_t) (back[k] ? (size_t) back[k] : n));
		n = ref_hdr_encode(&f, buf, sizeof buf);
		memset(buf + n, 0x33, 8);
		walk(kind, buf, n + 8, 0, 0, &o);
		if (o.hang) vf_viol("c13-zero-progress-loop", "%s: member with a compressed size just below 2^32", KIND_NAME[kind]);
		if (o.members > 1) vf_viol("c13-work-not-bounded", "%s: %d members returned from an input of %zu bytes that holds one header", KIND_NAME[kind], o.members, n + 8);
		vf_outcome(vf_mix(o.members, kind));
		vf_nontrivial(vf_mix(level * 8 + k, 8800 + kind));
	}
	/* many archives one after another in one process, each ending inside a level-3 header that declares 1 MiB (or inside a
	 * member): the bound is on the heap in use, whatever was handled before */
	for (kind = 0; kind < K_COUNT; ++kind)
	for (mode = 0; mode < 2; ++mode) {
		int rep;
		size_t n, total = 0;
		obs_t o;
		ref_hdr f;
		if (!vf_case("32 archives in a row, each cut inside %s, %s", mode ? "the data of a -lh7- member" : "a level-3 header declaring 1 MiB", KIND_NAME[kind])) continue;
		memset(&f, 0, sizeof f);
		f.level = mode ? 2 : 3; memcpy(f.method, mode ? "-lh7-" : "-lh0-", 5); f.name = f.area = (const uint8_t *) "";
		f.ext[0].type = 1; f.ext[0].data = (const uint8_t *) "x"; f.ext[0].len = 1; f.next = 1;
		f.packed = mode ? 1000 : 0; f.size = mode ? 100000 : 0;
		n = ref_hdr_encode(&f, buf, sizeof buf);
		if (!mode) { uint32_t hl = (1u << 20) - 16; buf[24] = (uint8_t) hl; buf[25] = (uint8_t) (hl >> 8); buf[26] = (uint8_t) (hl >> 16); buf[27] = (uint8_t) (hl >> 24); }
		memset(buf + n, 0x5A, 40);
		LIVE = 0; PEAK = 0; KEEP_LIVE = 1;
		for (rep = 0; rep < 32; ++rep) { walk(kind, buf, n + 40, mode ? 1 : 0, 4096, &o); total += n + 40; }
		KEEP_LIVE = 0;
		if (PEAK > (8u << 20) + 2 * total) vf_viol("c13-heap", "%s: peak live heap %zu after 32 archives of %zu bytes each", KIND_NAME[kind], PEAK, n + 40);
		vf_outcome(vf_mix(PEAK / 65536, kind));
		vf_nontrivial(vf_mix(kind, 4242 + mode));
	}
	/* decoders fed endless / self-referential input through the archive layer: declared length up to 4 MiB, 2 bytes of data */
	{
		int mi;
		static const uint32_t decl[6] = { 65536, 1u << 20, 4u << 20, 0, 1, 100 };
		static uint8_t vs[4096], vp[4096];
		for (mi = 0; mi < 14; ++mi)
		for (k = 0; k < 6; ++k)
		for (mode = 0; mode < 6; ++mode) {
			ref_hdr f;
			size_t n, dl = mode == 0 ? 0 : mode == 3 ? 1 : mode == 5 ? 6 : 2, vl = 0;
			obs_t o;
			/* mode 3: the single byte 0x04; mode 4: a valid stream of the method that holds 300 bytes */
			if (mode == 4) { dl = make_stream(ALL_METHODS[mi], 300, 9, vs, sizeof vs, vp, sizeof vp, &vl); if (!dl) continue; }
			if ((mode == 3 || mode == 4) && k < 3) continue;
			if (mode == 5 && k != 0 && k != 5) continue;
			if (!vf_case("%s member declaring %u bytes with %zu bytes of %s data", ALL_METHODS[mi], decl[k], dl, mode == 2 ? "0xFF" : mode == 3 ? "0x04" : mode == 4 ? "valid (300 bytes encoded)" : mode == 5 ? "00 01 0f ff ff ff (input ends inside a unary field)" : "zero")) continue;
			memset(&f, 0, sizeof f);
			f.level = 2; memcpy(f.method, ALL_METHODS[mi], 5); f.name = f.area = (const uint8_t *) "";
			f.ext[0].type = 1; f.ext[0].data = (const uint8_t *) "endless"; f.ext[0].len = 7; f.next = 1;
			f.packed = (uint32_t) dl; f.size = decl[k];
			n = ref_hdr_encode(&f, buf, sizeof buf);
			if (mode == 4) memcpy(buf + n, vs, dl); else memset(buf + n, mode == 2 || mode == 5 ? 0xFF : mode == 3 ? 0x04 : 0, dl);
			if (mode == 5) { buf[n] = 0x00; buf[n + 1] = 0x01; buf[n + 2] = 0x0F; }
			if (k >= 3) {
				/* a small declared length, zero included, is a limit like any other: the test walk must return too */
				walk(K_SKIPFAIL, buf, n + dl, 2, 4096, &o);
				if (o.hang) vf_viol("c13-zero-progress-loop", "%s: test of a member declaring %u bytes", ALL_METHODS[mi], decl[k]);
			}
			walk(K_NOSKIP, buf, n + dl, 1, 4096, &o);
			if (o.hang) vf_viol("c13-zero-progress-loop", "%s: decoder on exhausted input", ALL_METHODS[mi]);
			if (o.body_len[0] > decl[k]) vf_viol("c13-output-exceeds-declared", "%s produced %zu > %u", ALL_METHODS[mi], o.body_len[0], decl[k]);
			if (o.peak > (8u << 20) + 2 * (n + dl)) vf_viol("c13-heap", "%s: peak live heap %zu", ALL_METHODS[mi], o.peak);
			vf_outcome(vf_mix(o.body_len[0], mi));
			vf_nontrivial(vf_mix(mi * 16 + k, mode));
		}
	}
}


/* ------------------------------------------------------------------ members behind gigabytes of data (C16) */

/* a virtual archive: [head: first header][gap: 'gap' filler bytes that are the first member's data][tail: further members] */
typedef struct { const uint8_t *head; size_t headn; uint64_t gap; const uint8_t *tail; size_t tailn; uint64_t pos; unsigned long calls; } virt_t;

static int virt_read(void *h, void *buf, size_t len)
{
	virt_t *v = (virt_t *) h;
	uint64_t total = v->headn + v->gap + v->tailn, left = total - v->pos;
	size_t k = left < len ? (size_t) left : len, i;
	++v->calls;
	for (i = 0; i < k; ++i) {
		uint64_t p = v->pos + i;
		((uint8_t *) buf)[i] = p < v->headn ? v->head[p] : p < v->headn + v->gap ? 0x55 : v->tail[p - v->headn - v->gap];
	}
	v->pos += k;
	return (int) k;
}

static int virt_skip(void *h, size_t bytes)
{
	virt_t *v = (virt_t *) h;
	uint64_t total = v->headn + v->gap + v->tailn;
	if (bytes > total - v->pos) { v->pos = total; return 0; }
	v->pos += bytes;
	return 1;
}

static const LHAInputStreamType VIRT_NOSKIP = { virt_read, NULL, NULL }, VIRT_SKIP = { virt_read, virt_skip, NULL };

static void space_huge(void)
{
	static const uint64_t gaps[] = { 0x7FFFFFF0ull, 0x7FFFFFFFull, 0x80000000ull, 0x80000005ull, 0xFFFFFFFFull, 70000 };
	static uint8_t head[256], tail[4096];
	unsigned gi;
	int withskip;
	for (gi = 0; gi < sizeof gaps / sizeof *gaps; ++gi)
	for (withskip = 0; withskip < 3; ++withskip) {
		ref_hdr f;
		virt_t v;
		FILE *sparse = NULL;
		size_t tn = 0;
		LHAInputStream *st;
		LHAReader *rd;
		LHAFileHeader *h;
		int members = 0, k;
		char names[8][32];
		if (gaps[gi] > 0x90000000ull && !VF.thorough && !withskip) continue;      /* 4 GiB through 32-byte reads: thorough tier */
		if (!vf_case("first member with %llu bytes of data, two members behind it, %s", (unsigned long long) gaps[gi], withskip == 2 ? "a sparse seekable file" : withskip ? "callbacks with a skip function" : "callbacks without a skip function")) continue;
		memset(&f, 0, sizeof f);
		f.level = 2; memcpy(f.method, "-lh0-", 5); f.name = f.area = (const uint8_t *) ""; f.os = 'U'; f.time_raw = 1262304000u;
		f.ext[0].type = 1; f.ext[0].data = (const uint8_t *) "big.bin"; f.ext[0].len = 7; f.next = 1;
		f.packed = f.size = (uint32_t) gaps[gi];
		memset(&v, 0, sizeof v);
		v.headn = ref_hdr_encode(&f, head, sizeof head); v.head = head; v.gap = gaps[gi];
		for (k = 0; k < 2; ++k) {
			f.ext[0].data = (const uint8_t *) (k ? "third.txt" : "second.txt"); f.ext[0].len = k ? 9 : 10;
			f.packed = f.size = 5; f.crc = ref_crc16(0, (const uint8_t *) "hello", 5);
			tn += ref_hdr_encode(&f, tail + tn, sizeof tail - tn);
			memcpy(tail + tn, "hello", 5); tn += 5;
		}
		v.tail = tail; v.tailn = tn;
		if (withskip == 2) {
			/* the same bytes as a sparse seekable file */
			char path[64];
			FILE *wf;
			snprintf(path, sizeof path, "huge.%d.bin", (int) getpid());
			wf = fopen(path, "wb");
			if (!wf || fwrite(head, 1, v.headn, wf) != v.headn || fseeko(wf, (off_t) (v.headn + v.gap), SEEK_SET) || fwrite(tail, 1, tn, wf) != tn || fclose(wf)) {
				printf("HARNESS cannot write the sparse file of %llu bytes\n", (unsigned long long) (v.headn + v.gap + tn));
				unlink(path);
				continue;
			}
			sparse = fopen(path, "rb");
			unlink(path);
			if (!sparse) continue;
			st = lha_input_stream_from_FILE(sparse);
		} else
		st = lha_input_stream_new(withskip ? &VIRT_SKIP : &VIRT_NOSKIP, &v);
		rd = lha_reader_new(st);
		while ((h = lha_reader_next_file(rd)) != NULL && members < 8) { snprintf(names[members], sizeof names[0], "%s", h->filename ? h->filename : "?"); ++members; }
		vf_step(vf_mix((uint64_t) members, v.calls));
		if (members != 3 || strcmp(names[0], "big.bin") || strcmp(names[1], "second.txt") || strcmp(names[2], "third.txt"))
			vf_viol("c16-member-lost", "%d members returned (%s%s%s), the archive holds big.bin, second.txt, third.txt", members, members > 0 ? names[0] : "", members > 1 ? ", " : "", members > 1 ? names[1] : "");
		lha_reader_free(rd);
		lha_input_stream_free(st);
		if (sparse) fclose(sparse);
		vf_outcome(vf_mix((uint64_t) members, gi));
		vf_nontrivial(vf_mix(gaps[gi], (uint64_t) withskip) + 1);
	}
}

/* ------------------------------------------------------------------ level-1 skip size against its extended headers (C16) */

/* A level-1 header with two or three extended headers, member data and a following member; the skip-size field (which counts
 * the extended headers and the data) set to EVERY value from 0 to a little past the true one, checksum re-made.  Whatever the
 * library makes of an inconsistent value, every stream kind must see the same members. */
static void space_l1skip(void)
{
	static uint8_t arc[600], t[600];
	int shape, v, kind, mode;
	for (shape = 0; shape < 4; ++shape) {
		ref_hdr f;
		size_t hl, n = 0;
		uint32_t truev;
		static const uint8_t perm[2] = { 0xA4, 0x81 }, ug[4] = { 1, 0, 2, 0 }, ts[4] = { 0x00, 0x5C, 0x3D, 0x4B };
		memset(&f, 0, sizeof f);
		f.level = 1; memcpy(f.method, "-lh0-", 5); f.name = (const uint8_t *) "a.txt"; f.name_len = 5; f.area = (const uint8_t *) ""; f.os = 'U';
		f.time_raw = 0x3C21A000u;
		f.ext[f.next].type = 2; f.ext[f.next].data = (const uint8_t *) "dir\xff" "sub\xff" "deeper\xff"; f.ext[f.next].len = 15; ++f.next;
		if (shape >= 1) { f.ext[f.next].type = 0x50; f.ext[f.next].data = perm; f.ext[f.next].len = 2; ++f.next; }
		if (shape >= 2) { f.ext[f.next].type = 0x51; f.ext[f.next].data = ug; f.ext[f.next].len = 4; ++f.next; f.ext[f.next].type = 0x54; f.ext[f.next].data = ts; f.ext[f.next].len = 4; ++f.next; }
		if (shape == 3) {
			/* the last extended header (a comment) holds the bytes of a complete small member: a skip that went backwards by
			 * the right amount would find it */
			static uint8_t inner[80];
			ref_hdr g;
			size_t il;
			memset(&g, 0, sizeof g);
			g.level = 0; memcpy(g.method, "-lh0-", 5); g.name = (const uint8_t *) "INNER"; g.name_len = 5; g.area = (const uint8_t *) "";
			g.packed = g.size = 3; g.crc = ref_crc16(0, (const uint8_t *) "abc", 3);
			il = ref_hdr_encode(&g, inner, sizeof inner);
			memcpy(inner + il, "abc", 3); il += 3;
			f.ext[f.next].type = 0x3F; f.ext[f.next].data = inner; f.ext[f.next].len = il; ++f.next;
		}
		f.packed = f.size = 5; f.crc = ref_crc16(0, (const uint8_t *) "hello", 5);
		hl = ref_hdr_encode(&f, arc, sizeof arc);
		memcpy(arc + hl, "hello", 5); n = hl + 5;
		truev = (uint32_t) arc[7] | ((uint32_t) arc[8] << 8);
		/* a following member */
		{
			ref_hdr g;
			memset(&g, 0, sizeof g);
			g.level = 0; memcpy(g.method, "-lh0-", 5); g.name = (const uint8_t *) "GHOST.TXT"; g.name_len = 9; g.area = (const uint8_t *) "";
			g.packed = g.size = 5; g.crc = f.crc;
			n += ref_hdr_encode(&g, arc + n, sizeof arc - n);
			memcpy(arc + n, "hello", 5); n += 5;
		}
		for (v = 0; v <= (int) truev + 12; ++v)
		for (mode = 0; mode < 2; ++mode) {
			obs_t o[K_COUNT];
			unsigned sum = 0;
			size_t q;
			if (!vf_case("level-1 header with %d extended headers (true skip size %u): skip size %d, walk %d, all stream kinds", f.next, truev, v, mode)) continue;
			memcpy(t, arc, n);
			t[7] = (uint8_t) v; t[8] = (uint8_t) (v >> 8); t[9] = 0; t[10] = 0;
			for (q = 2; q < (size_t) t[0] + 2; ++q) sum += t[q];
			t[1] = (uint8_t) sum;
			for (kind = 0; kind < K_COUNT; ++kind) walk(kind, t, n, mode, 4096, &o[kind]);
			for (kind = 1; kind < K_COUNT; ++kind)
				if (o[kind].hang != 1 && obs_hash(&o[kind]) != obs_hash(&o[0]))
					vf_viol("c16-kinds-differ", "%s yields %d members, %s yields %d (or differing headers/data)", KIND_NAME[kind], o[kind].members, KIND_NAME[0], o[0].members);
			if ((uint32_t) v == truev && o[0].members != 2) vf_viol("c16-member-lost", "the consistent archive yields %d members instead of 2", o[0].members);
			vf_outcome(obs_hash(&o[0]));
			vf_nontrivial(vf_mix(shape * 4096 + v, mode) + 17);
		}
	}
}

/* ------------------------------------------------------------------ work proportional to the bytes present (C13) */

#include <time.h>
static double cpu_now(void)
{
	struct timespec ts;
	clock_gettime(CLOCK_PROCESS_CPUTIME_ID, &ts);
	return ts.tv_sec + ts.tv_nsec * 1e-9;
}

/* Headers as large as the format allows with every byte present: listing must stay within a CPU budget that is linear in the
 * input (1.5 s + 1 us per byte; the unchanged library needs a few milliseconds per MiB, so the margin is two orders of magnitude
 * and the verdict does not depend on machine load) */
static void space_work(void)
{
	static uint8_t big[(1u << 20) + (1u << 18)];
	static uint8_t body[(1u << 20) + 16];
	static const char *FAM[] = { "upper-case letters", "lower-case letters", "separators only", "dots only", "'../' repeated", "'A/' repeated (one-letter components)",
	                             "'./' repeated", "'|' only", "0x80 bytes", "upper-case with one lower-case letter at the end", "digits" };
	static const uint8_t OSES[] = { 'M', 'U', 0, 'm', '2' };
	int fam, oi, where, kind, level;
	double worst = 0;
	for (level = 3; level >= 1; --level)
	for (fam = 0; fam < 11; ++fam)
	for (oi = 0; oi < 5; ++oi)
	for (where = 0; where < 3; ++where)          /* 0: file name header, 1: path header, 2: both halves */
	for (kind = 0; kind < K_COUNT; kind += 2) {
		size_t L = level == 3 ? (1u << 20) - 200 : 65000, i, n;
		ref_hdr f;
		obs_t o;
		double t0, dt, budget;
		if (level == 1 && (fam > 5 || oi > 1)) continue;
		if (!vf_case("level-%d header with %zu bytes of %s in %s, OS '%c', %s: CPU time of listing", level, L, FAM[fam],
		             where == 0 ? "the name header" : where == 1 ? "the path header" : "name and path headers", OSES[oi] ? OSES[oi] : '0', KIND_NAME[kind])) continue;
		for (i = 0; i < L; ++i) {
			uint8_t c;
			switch (fam) {
			case 0: c = (uint8_t) ('A' + i % 26); break;
			case 1: c = (uint8_t) ('a' + i % 26); break;
			case 2: c = 0xFF; break;
			case 3: c = '.'; break;
			case 4: c = i % 3 == 2 ? 0xFF : '.'; break;
			case 5: c = i % 2 ? 0xFF : 'A'; break;
			case 6: c = i % 2 ? 0xFF : '.'; break;
			case 7: c = '|'; break;
			case 8: c = 0x80; break;
			case 9: c = i + 1 == L ? 'z' : (uint8_t) ('A' + i % 26); break;
			default: c = (uint8_t) ('0' + i % 10); break;
			}
			body[i] = c;
		}
		memset(&f, 0, sizeof f);
		f.level = level; memcpy(f.method, "-lh0-", 5); f.name = f.area = (const uint8_t *) ""; f.os = OSES[oi];
		f.time_raw = level <= 1 ? 0x3C21A000u : 1262304000u;
		if (level == 1) { f.name = (const uint8_t *) "N"; f.name_len = 1; }
		if (where == 0) { f.ext[0].type = 1; f.ext[0].data = body; f.ext[0].len = L; f.next = 1; if (fam >= 2 && fam <= 6) for (i = 0; i < L; ++i) if (body[i] == 0xFF) body[i] = '\\'; }
		else if (where == 1) { f.ext[0].type = 2; f.ext[0].data = body; f.ext[0].len = L; f.ext[1].type = 1; f.ext[1].data = (const uint8_t *) "NAME"; f.ext[1].len = 4; f.next = 2; }
		else { f.ext[0].type = 2; f.ext[0].data = body; f.ext[0].len = L / 2; f.ext[1].type = 1; f.ext[1].data = body + L / 2; f.ext[1].len = L - L / 2; f.next = 2; }
		if (level <= 2 && f.next == 2 && where == 2) { f.ext[0].len = 32000; f.ext[1].len = 32000; }
		n = ref_hdr_encode(&f, big, sizeof big);
		if (!n) { printf("HARNESS encoder refused the %zu-byte header\n", L); continue; }
		t0 = cpu_now();
		walk(kind, big, n, 0, 0, &o);
		dt = cpu_now() - t0;
		budget = 1.5 + 1e-6 * (double) n;
		if (dt > worst) worst = dt;
		if (dt > budget) vf_viol("c13-work-not-linear", "%s: listing a %zu-byte archive took %.2f s of CPU (budget %.2f s = 1.5 s + 1 us per byte present)", KIND_NAME[kind], n, dt, budget);
		if (o.hang) vf_viol("c13-zero-progress-loop", "%s: maximal header", KIND_NAME[kind]);
		if (o.peak > (8u << 20) + 2 * n) vf_viol("c13-heap", "%s: peak live heap %zu for %zu input bytes (maximal header)", KIND_NAME[kind], o.peak, n);
		vf_outcome(vf_mix(o.members, o.hdr[0]));
		vf_nontrivial(vf_mix(fam * 64 + oi * 8 + where, level * 8 + kind) + 1);
	}
	printf("NOTE work-shard%d=worst-cpu-seconds:%.3f\n", VF.shard_i, worst);
}

/* ------------------------------------------------------------------ verdicts (C07) */

static uint8_t VARC[1 << 18];

static size_t one_member(const char *method, int level, const uint8_t *data, size_t dl, uint32_t size, uint16_t crc)
{
	ref_hdr f;
	size_t n;
	memset(&f, 0, sizeof f);
	f.level = level; memcpy(f.method, method, 5); f.attr = 0x20; f.os = 'U';
	f.name = (const uint8_t *) ""; f.area = (const uint8_t *) "";
	f.packed = (uint32_t) dl; f.size = size; f.crc = crc;
	f.time_raw = level <= 1 ? 0x3C21A000u : 1262304000u;
	if (level <= 1) { f.name = (const uint8_t *) "MEMBER.BIN"; f.name_len = 10; }
	else { f.ext[0].type = 1; f.ext[0].data = (const uint8_t *) "member.bin"; f.ext[0].len = 10; f.next = 1; }
	n = ref_hdr_encode(&f, VARC, sizeof VARC);
	memcpy(VARC + n, data, dl);
	return n + dl;
}

/* the three verdicts must agree with "bytes produced have the recorded length and CRC" */
static void verdict_case(const uint8_t *arc, size_t n, int supported, int must_be_bad, int do_extract, const char *what)
{
	mem_stream ms;
	LHAInputStream *st;
	LHAReader *rd;
	LHAFileHeader *h;
	static uint8_t buf[4096];
	size_t got, total = 0;
	uint16_t crc = 0;
	int expected, v;
	uint32_t rec_len; uint16_t rec_crc;
	st = mem_open(&ms, arc, n, 1);
	rd = lha_reader_new(st);
	h = lha_reader_next_file(rd);
	if (!h) { lha_reader_free(rd); lha_input_stream_free(st); return; }
	rec_len = (uint32_t) h->length; rec_crc = h->crc;
	while ((got = lha_reader_read(rd, buf, sizeof buf)) > 0) { crc = ref_crc16(crc, buf, got); total += got; if (total > rec_len) break; }
	expected = total == rec_len && crc == rec_crc;
	lha_reader_free(rd); lha_input_stream_free(st);
	/* check */
	st = mem_open(&ms, arc, n, 1);
	rd = lha_reader_new(st);
	h = lha_reader_next_file(rd);
	v = h ? lha_reader_check(rd, NULL, NULL) : 0;
	vf_step(vf_mix(expected * 2 + v, total));
	if (v && !expected) vf_viol("c07-check-good-but-mismatch", "%s: check reports good, bytes produced %zu crc %04x, recorded %u / %04x", what, total, crc, rec_len, rec_crc);
	if (!v && expected && supported) vf_viol("c07-check-bad-but-match", "%s: check reports bad although length and CRC match (%zu, %04x)", what, total, crc);
	if (v && must_be_bad) vf_viol("c07-damage-undetected", "%s: damaged member tested good", what);
	lha_reader_free(rd); lha_input_stream_free(st);
	if (do_extract) {
		int e;
		char oname[64];
		st = mem_open(&ms, arc, n, 1);
		rd = lha_reader_new(st);
		h = lha_reader_next_file(rd);
		snprintf(oname, sizeof oname, "c07-out-%d.bin", (int) getpid());
		e = h ? lha_reader_extract(rd, oname, NULL, NULL) : 0;
		if (e && !expected) vf_viol("c07-extract-good-but-mismatch", "%s: extract reports success, bytes produced %zu crc %04x, recorded %u / %04x", what, total, crc, rec_len, rec_crc);
		if (!e && expected && supported) vf_viol("c07-extract-bad-but-match", "%s: extract reports failure although length and CRC match", what);
		lha_reader_free(rd); lha_input_stream_free(st);
		unlink(oname);
		/* an extraction that follows a test or a partial read of the same member: whatever it reports, success is only
		 * allowed when the file it wrote has the recorded length and CRC */
		{
			int seq;
			for (seq = 0; seq < 3; ++seq) {
				FILE *f;
				size_t flen = 0;
				uint16_t fcrc = 0;
				st = mem_open(&ms, arc, n, 1);
				rd = lha_reader_new(st);
				h = lha_reader_next_file(rd);
				if (h) {
					if (seq == 0) lha_reader_check(rd, NULL, NULL);
					else lha_reader_read(rd, buf, seq == 1 ? 1 : 100);
					e = lha_reader_extract(rd, oname, NULL, NULL);
					f = fopen(oname, "rb");
					if (f) {
						while ((got = fread(buf, 1, sizeof buf, f)) > 0) { fcrc = ref_crc16(fcrc, buf, got); flen += got; }
						fclose(f);
					}
					vf_step(vf_mix(seq * 2 + e, flen));
					if (e && (!f || flen != rec_len || fcrc != rec_crc))
						vf_viol("c07-extract-after-decode-good-but-mismatch", "%s: extract after %s of the same member reports success, file written has %zu bytes crc %04x, recorded %u / %04x",
						        what, seq == 0 ? "a test" : "a partial read", flen, fcrc, rec_len, rec_crc);
					unlink(oname);
				}
				lha_reader_free(rd); lha_input_stream_free(st);
			}
		}
	}
	vf_outcome(vf_mix(expected * 2 + v, crc));
}

static void space_verdict(void)
{
	static uint8_t data[1 << 16], plain[1 << 16], tmp[1 << 16];
	int mi, level;
	unsigned hi, lo;
	int burst_bytes = atoi(vf_extra("burst", "3"));
	int fast = atoi(vf_extra("fast", "1"));
	for (mi = 0; mi < 14; ++mi)
	for (level = 0; level <= 2; ++level) {
		size_t pl = 0, dl, n, cut, pos;
		uint16_t crc;
		const char *method = ALL_METHODS[mi];
		char what[128];
		dl = make_stream(method, 200 + 13 * (size_t) mi, 5 + (unsigned) mi, data, sizeof data, plain, sizeof plain, &pl);
		if (!dl) { printf("HARNESS no stream for %s\n", method); continue; }
		crc = ref_crc16(0, plain, pl);
		/* every value of the recorded CRC field */
		if (level == (mi % 3) || !fast)
		for (hi = 0; hi < 256; ++hi) {
			if (!vf_case("%s level %d recorded CRC %02xxx (256 values), true CRC %04x", method, level, hi, crc)) continue;
			for (lo = 0; lo < 256; ++lo) {
				n = one_member(method, level, data, dl, (uint32_t) pl, (uint16_t) (hi << 8 | lo));
				snprintf(what, sizeof what, "recorded crc %04x", hi << 8 | lo);
				verdict_case(VARC, n, 1, 0, lo == 0, what);
			}
			vf_nontrivial(vf_mix(mi * 4 + level, hi));
		}
		/* recorded length */
		{
			int k;
			for (k = 0; k < 7; ++k) {
				uint32_t L = k == 0 ? 0 : k == 5 ? (uint32_t) (2 * pl) : (mi == 12 ? 65536u : 0xFFFFFFFFu);   /* -pm1- is endless by specification: keep its declared length small */
				if (k == 1) L = (uint32_t) pl - 1;
				if (k == 2) L = (uint32_t) pl + 1;
				if (k == 3) L = (uint32_t) pl;
				if (k == 4) L = 1;
				if (!vf_case("%s level %d recorded length %u (true %zu)", method, level, L, pl)) continue;
				n = one_member(method, level, data, dl, L, crc);
				snprintf(what, sizeof what, "recorded length %u", L);
				verdict_case(VARC, n, 1, 0, 1, what);
				/* also with the CRC of the truncated plaintext: a shorter recorded length with a matching CRC is a consistent member */
				if (L < pl) { n = one_member(method, level, data, dl, L, ref_crc16(0, plain, L)); verdict_case(VARC, n, 1, 0, 0, "recorded length and CRC of a prefix"); }
				vf_nontrivial(vf_mix(mi * 4 + level, 1000 + k));
			}
		}
		/* data truncated at every byte (must be bad), every single-byte substitution */
		n = one_member(method, level, data, dl, (uint32_t) pl, crc);
		for (cut = n - dl; cut < n; ++cut) {
			if (!vf_case("%s level %d data truncated to %zu of %zu bytes", method, level, cut - (n - dl), dl)) continue;
			n = one_member(method, level, data, dl, (uint32_t) pl, crc);
			verdict_case(VARC, cut, 1, 1, (cut & 7) == 0, "truncated data");
			vf_nontrivial(vf_mix(mi * 4 + level, 2000 + cut));
		}
		if (level == 2 || !fast)
		for (pos = 0; pos < dl; ++pos) {
			unsigned val;
			if (!vf_case("%s level %d compressed byte %zu of %zu: all 255 substitutions", method, level, pos, dl)) continue;
			for (val = 1; val < 256; ++val) {
				memcpy(tmp, data, dl);
				tmp[pos] ^= (uint8_t) val;
				n = one_member(method, level, tmp, dl, (uint32_t) pl, crc);
				/* a stored member: a single-byte change is a burst of at most 8 bits and must be bad */
				verdict_case(VARC, n, 1, mi < 3, 0, "substituted byte");
			}
			vf_nontrivial(vf_mix(mi * 4 + level, 100000 + pos));
		}
	}
	/* stored member: every burst of 1..16 flipped bits at every bit offset */
	{
		int nb = burst_bytes, b;
		unsigned p;
		for (mi = 0; mi < 3; ++mi)
		for (b = 0; b < nb * 8; ++b)
		for (hi = 0; hi < 256; ++hi) {
			uint8_t base[8] = { 0x12, 0x00, 0xFF, 0x80, 0x55, 0xAA, 0x01, 0x7E };
			uint16_t crc = ref_crc16(0, base, (size_t) nb);
			if (!vf_case("%s stored %d bytes, bursts starting at bit %d, patterns %02xxx", ALL_METHODS[mi], nb, b, hi)) continue;
			for (lo = 0; lo < 256; ++lo) {
				uint8_t d[8];
				int k, spill = 0;
				size_t n;
				p = hi << 8 | lo;
				if (!(p & 1)) continue;                 /* the burst starts at bit b */
				memcpy(d, base, 8);
				for (k = 0; k < 16; ++k) if (p & (1u << k)) {
					int bit = b + k;
					if (bit >= nb * 8) { spill = 1; break; }
					d[bit / 8] ^= (uint8_t) (1u << (bit % 8));     /* bit order of the reflected CRC: least significant bit first */
				}
				if (spill) continue;
				n = one_member(ALL_METHODS[mi], mi, d, (size_t) nb, (uint32_t) nb, crc);
				verdict_case(VARC, n, 1, 1, 0, "burst");
			}
			vf_nontrivial(vf_mix(mi * 64 + b, 500000 + hi));
		}
	}
}

/* ------------------------------------------------------------------ mutated archives under the sanitizers (C08) */

/* limit: the caller abandons the archive after this many entries (200: walks to the end) */
static void extract_walk(const uint8_t *a, size_t n, int limit)
{
	mem_stream ms;
	LHAInputStream *st;
	LHAReader *rd;
	LHAFileHeader *h;
	int k = 0;
	char name[64];
	BAL = 0; BTRACK = LEAKS;
	st = mem_open(&ms, a, n, 1);
	rd = lha_reader_new(st);
	while (k < limit && (h = lha_reader_next_file(rd)) != NULL) {
		/* explicit output names: the library itself does not confine header paths */
		snprintf(name, sizeof name, "c08-out-%d-%d", (int) getpid(), k);
		if (!(h->length > (1u << 20) && !strcmp(h->compress_method, "-pm1-")))
			lha_reader_extract(rd, name, NULL, NULL);
		(void) lha_reader_current_is_fake(rd);
		++k;
	}
	lha_reader_free(rd);
	lha_input_stream_free(st);
	BTRACK = 0;
	if (LEAKS && BAL != 0)
		vf_viol("c20-leak-after-free", "extract-all walk: %ld allocation(s) of the library still live after lha_reader_free and lha_input_stream_free", BAL);
	while (k-- > 0) {
		snprintf(name, sizeof name, "c08-out-%d-%d", (int) getpid(), k);
		if (unlink(name) != 0) rmdir(name);
	}
}

static void four_walks(const uint8_t *a, size_t n)
{
	obs_t o;
	walk(K_SKIPFAIL, a, n, 0, 0, &o);
	vf_step(obs_hash(&o));
	walk(K_NOSKIP, a, n, 1, 7, &o);
	vf_step(obs_hash(&o));
	walk(K_SEEKLIKE, a, n, 2, 0, &o);
	vf_step(obs_hash(&o));
	extract_walk(a, n, 200);
	/* and abandoned after 1, 2 and 3 entries, e.g. inside a directory that was just created */
	extract_walk(a, n, 1);
	extract_walk(a, n, 2);
	extract_walk(a, n, 3);
	vf_outcome(obs_hash(&o));
}

static void space_mutate(void)
{
	static const uint8_t quickvals[15] = { 0x00, 0x01, 0x02, 0x03, 0x04, 0x1F, 0x20, 0x2D, 0x2F, 0x5C, 0x7C, 0x7F, 0x80, 0xFE, 0xFF };
	static uint8_t t[1 << 20];
	int ai, mi2, full = atoi(vf_extra("full", "0"));
	build_archives();
	for (ai = 0; ai < NARCS; ++ai) {
		ab_arc *a = &ARCS[ai];
		if (a->n > 30000) continue;
		for (mi2 = 0; mi2 < a->nm; ++mi2) {
			ab_member *m = &a->m[mi2];
			size_t pos;
			for (pos = m->hdr_off; pos < m->hdr_off + m->hdr_len; ++pos) {
				unsigned v;
				if (!vf_case("archive=%d member=%d header byte %zu: %s substitutions, delete, duplicate", ai, mi2, pos - m->hdr_off, full ? "all 255" : "15 values")) continue;
				for (v = 0; v < (full ? 256u : 15u); ++v) {
					uint8_t nv = full ? (uint8_t) v : quickvals[v];
					if (nv == a->buf[pos]) continue;
					memcpy(t, a->buf, a->n);
					t[pos] = nv;
					/* keep the additive checksum consistent half of the time so that the damaged field is actually used */
					if (m->level <= 1 && (v & 1) && pos != m->hdr_off + 1) {
						unsigned sum = 0; size_t q, hs = t[m->hdr_off];
						for (q = m->hdr_off + 2; q < m->hdr_off + 2 + hs && q < a->n; ++q) sum += t[q];
						t[m->hdr_off + 1] = (uint8_t) sum;
					}
					four_walks(t, a->n);
				}
				/* byte deleted, byte duplicated */
				memcpy(t, a->buf, pos); memcpy(t + pos, a->buf + pos + 1, a->n - pos - 1);
				four_walks(t, a->n - 1);
				memcpy(t, a->buf, pos + 1); memcpy(t + pos + 1, a->buf + pos, a->n - pos);
				four_walks(t, a->n + 1);
				vf_nontrivial(vf_mix(ai * 64 + mi2, pos));
			}
			/* truncations inside this member */
			for (pos = m->hdr_off; pos < m->data_off + (m->data_len < 40 ? m->data_len : 40); ++pos) {
				if (!vf_case("archive=%d member=%d truncated at %zu", ai, mi2, pos)) continue;
				four_walks(a->buf, pos);
				vf_nontrivial(vf_mix(ai * 64 + mi2, 100000 + pos));
			}
			/* length fields singly and in pairs: boundary values */
			{
				static const uint32_t lv[11] = { 0, 1, 2, 3, 0x7F, 0xFF, 0xFFFF, 0x80000000u, 0xFFFFFFFFu, 0x100, 0x10000 };
				size_t foff[6]; int fw[6], nf = 0, i, j, x, y;
				if (m->level <= 1) { foff[nf] = 0; fw[nf++] = 1; foff[nf] = 21; fw[nf++] = 1; }
				else if (m->level == 2) { foff[nf] = 0; fw[nf++] = 2; }
				else { foff[nf] = 24; fw[nf++] = 4; }
				foff[nf] = 7; fw[nf++] = 4;
				foff[nf] = 11; fw[nf++] = 4;
				if (m->level >= 1) { foff[nf] = m->level == 1 ? (size_t) a->buf[m->hdr_off] : m->level == 2 ? 24 : 28; fw[nf++] = m->level == 3 ? 4 : 2; }
				for (i = 0; i < nf; ++i)
				for (j = i; j < nf; ++j) {
					if (!vf_case("archive=%d member=%d length fields at %zu and %zu: boundary value pairs", ai, mi2, foff[i], foff[j])) continue;
					for (x = 0; x < 11; ++x)
					for (y = 0; y < (i == j ? 1 : 11); ++y) {
						int b;
						memcpy(t, a->buf, a->n);
						for (b = 0; b < fw[i]; ++b) t[m->hdr_off + foff[i] + b] = (uint8_t) (lv[x] >> (8 * b));
						if (i != j) for (b = 0; b < fw[j]; ++b) t[m->hdr_off + foff[j] + b] = (uint8_t) (lv[y] >> (8 * b));
						if (m->level <= 1) {
							unsigned sum = 0; size_t q, hs = t[m->hdr_off];
							for (q = m->hdr_off + 2; q < m->hdr_off + 2 + hs && q < a->n; ++q) sum += t[q];
							t[m->hdr_off + 1] = (uint8_t) sum;
						}
						four_walks(t, a->n);
					}
					vf_nontrivial(vf_mix(ai * 64 + mi2, 200000 + i * 8 + j));
				}
			}
		}
	}
}

int main(int argc, char **argv)
{
	int prop;
	vf_init(argc, argv);
	prop = atoi(vf_extra("prop", "16"));
	LEAKS = atoi(vf_extra("leaks", "0"));
	if (!strcmp(VF.space, "kinds")) space_kinds(prop);
	else if (!strcmp(VF.space, "sfx")) space_sfx();
	else if (!strcmp(VF.space, "extreme")) space_extreme();
	else if (!strcmp(VF.space, "verdict")) space_verdict();
	else if (!strcmp(VF.space, "work")) space_work();
	else if (!strcmp(VF.space, "huge")) space_huge();
	else if (!strcmp(VF.space, "l1skip")) space_l1skip();
	else if (!strcmp(VF.space, "mutate")) space_mutate();
	else { fprintf(stderr, "unknown space %s\n", VF.space); return 2; }
	vf_done();
	return 0;
}
