/* Canonical valid compressed streams for every method, built with the reference serialisers.
 * Used by the split-invariance explorer and by the archive builders of E2/E3. */
#ifndef VF_STREAMS_H
#define VF_STREAMS_H
#include <string.h>
#include "ref_all.h"
#include "ref_lh1.h"
#include "ref_pm.h"

static const char *ALL_METHODS[14] = { "-lh0-", "-lz4-", "-pm0-", "-lzs-", "-lz5-", "-lh1-", "-lh4-", "-lh5-",
                                       "-lh6-", "-lh7-", "-lhx-", "-lk7-", "-pm1-", "-pm2-" };

/* generic command list: literals and copies (distance-1 in value), output length about 'target' */
static int gen_cmds(ref_cmd *c, int cap, size_t target, unsigned minlen, unsigned maxlen, unsigned maxdist, unsigned seed)
{
	static const char text[] = "It was the best of times, it was the worst of times; LHA -lh5- PMarc LArc 0123456789\r\n";
	size_t produced = 0;
	int n = 0;
	unsigned i = seed;
	while (produced < target && n < cap) {
		memset(&c[n], 0, sizeof c[n]);
		if (produced >= 2 && (i % 3) == 2 && target - produced >= minlen) {
			unsigned len = minlen + (i * 7) % (maxlen - minlen + 1);
			unsigned dist;
			if (len > target - produced) len = (unsigned) (target - produced);
			if (len < minlen) len = minlen;
			dist = (i * 13) % (produced < maxdist ? (unsigned) produced : maxdist);
			c[n].copy = 1; c[n].value = dist; c[n].len = len;
			produced += len;
		} else {
			c[n].value = (uint8_t) text[(i * 5 + produced) % (sizeof text - 1)]; c[n].len = 1;
			produced += 1;
		}
		++n; ++i;
	}
	return n;
}

static ref_pm2_ctable STR_UNI;
static ref_pm2_otable STR_UNIO[8];
static int STR_RR[8];

/* Build a valid stream whose output is about 'target' bytes.  Returns stream length (0 on failure);
 * expect/elen receive the plaintext. */
static size_t make_stream(const char *method, size_t target, unsigned seed, uint8_t *out, size_t cap,
                          uint8_t *expect, size_t ecap, size_t *elen)
{
	static ref_cmd cmds[1 << 20];
	int n, i;
	const ref_lh_params *M = ref_lh_params_for(method);
	if (target > ecap) target = ecap;
	if (!strcmp(method, "-lh0-") || !strcmp(method, "-lz4-") || !strcmp(method, "-pm0-")) {
		size_t k;
		if (target > cap) target = cap;
		for (k = 0; k < target; ++k) expect[k] = out[k] = (uint8_t) ((k * 31 + seed * 7 + (k >> 8)) & 0xFF);
		*elen = target;
		return target ? target : 0;
	}
	if (!strcmp(method, "-lzs-") || !strcmp(method, "-lz5-")) {
		int variant = method[3] == 's' ? 's' : '5';
		unsigned R = variant == 's' ? 2048 : 4096, start = variant == 's' ? 2048 - 17 : 4096 - 18;
		size_t produced = 0;
		n = gen_cmds(cmds, 1 << 20, target, variant == 's' ? 2 : 3, variant == 's' ? 17 : 18, R - 40, seed);
		for (i = 0; i < n; ++i) {
			if (cmds[i].copy) {
				unsigned w = (unsigned) ((start + produced) % R);
				cmds[i].value = (w + R - cmds[i].value - 1) % R;
				produced += cmds[i].len;
			} else produced += 1;
		}
		*elen = ref_larc_expand(cmds, n, variant, expect, ecap);
		return variant == 's' ? ref_lzs_serialise(cmds, n, out, cap) : ref_lz5_serialise(cmds, n, out, cap);
	}
	if (M) {
		static ref_lh_block b;
		ref_bw w;
		int per = 400;
		n = gen_cmds(cmds, 1 << 20, target, 3, M->lhark ? 300 : 256, M->window - 1, seed);
		ref_bw_init(&w, out, cap);
		for (i = 0; i < n; ) {
			int k = n - i < per ? n - i : per;
			if (!ref_lh_block_auto(M, &b, cmds + i, k) || !ref_lh_write_block(M, &w, &b)) return 0;
			i += k;
			per = per * 3 + 7;              /* growing blocks */
			if (per > 60000) per = 60000;
		}
		*elen = ref_lz77_expand(cmds, n, 0x20, expect, ecap);
		return ref_bw_bytes(&w);
	}
	if (!strcmp(method, "-lh1-")) {
		static ref_lh1_tree t;
		ref_bw w;
		n = gen_cmds(cmds, 1 << 20, target, 3, 60, 4095, seed);
		ref_lh1_start(&t);
		ref_bw_init(&w, out, cap);
		for (i = 0; i < n; ++i) ref_lh1_put_cmd(&t, &w, &cmds[i]);
		*elen = ref_lz77_expand(cmds, n, 0x20, expect, ecap);
		return w.overflow ? 0 : ref_bw_bytes(&w);
	}
	if (!strcmp(method, "-pm2-")) {
		ref_bw w;
		ref_pm2_enc e;
		uint8_t len[32], bl[32];
		int k;
		ref_balanced_lengths(29, bl);
		for (k = 0; k < 29; ++k) len[k] = bl[k];
		ref_pm2_ctable_from_lengths(&STR_UNI, len, 29);
		for (k = 0; k < 8; ++k) { memset(&STR_UNIO[k], 0, sizeof STR_UNIO[k]); ref_balanced_lengths(k == 0 ? 5 : k == 1 ? 6 : k == 2 ? 7 : 8, STR_UNIO[k].len); STR_RR[k] = k & 1; }
		n = gen_cmds(cmds, 1 << 20, target, 2, 256, 1000, seed);
		ref_bw_init(&w, out, cap);
		{
			static ref_pm2_ctable cts[8];
			for (k = 0; k < 8; ++k) cts[k] = STR_UNI;
			ref_pm2_enc_init(&e, &w, cts, STR_UNIO, STR_RR, 8, expect, ecap);
			for (i = 0; i < n; ++i) {
				if (cmds[i].copy && cmds[i].len == 2 && cmds[i].value > 63) cmds[i].value &= 63;
				ref_pm2_put(&e, &cmds[i]);
			}
			if (e.error || w.overflow) return 0;
			*elen = e.out;
		}
		return ref_bw_bytes(&w);
	}
	if (!strcmp(method, "-pm1-")) {
		static ref_pm1_item it[1 << 16];
		static uint8_t bytes[1 << 20];
		size_t nb = 0, produced = 0;
		int ni = 0;
		unsigned k = seed;
		while (produced < target && ni < (1 << 16) - 2) {
			int bl = 1 + (int) ((k * 7) % 40);
			int j;
			if (produced + bl > target) bl = (int) (target - produced);
			if (bl < 1) bl = 1;
			for (j = 0; j < bl; ++j) bytes[nb + j] = (uint8_t) ("PMarc -pm1- stream \r\n"[(k + j) % 21] + ((k + j) % 7 == 0 ? 0x60 : 0));
			it[ni].copy = 0; it[ni].bytes = bytes + nb; it[ni].nbytes = bl; it[ni].range = -1; ++ni;
			nb += bl; produced += bl;
			{
				unsigned clen = 2 + (k * 5) % 20;
				unsigned dist = (k * 11) % (produced < 60 ? (unsigned) produced : 60);
				if (produced + clen > target && target > produced + 2) clen = (unsigned) (target - produced);
				if (clen < 2) clen = 2;
				it[ni].copy = 1; it[ni].dist = dist; it[ni].len = clen; it[ni].range = -1; ++ni;
				produced += clen;
			}
			++k;
		}
		return ref_pm1_serialise((int) (seed % 17), it, ni, out, cap, expect, ecap, elen);
	}
	return 0;
}

/* A valid stream of 'method' whose output is exactly the given bytes (literals only).  Returns the stream length, 0 when the
 * method is not covered. */
static size_t literal_stream(const char *method, const uint8_t *bytes, size_t nb, uint8_t *out, size_t cap)
{
	static ref_cmd lc[8192];
	static uint8_t scratch[8192 + 64];
	const ref_lh_params *M = ref_lh_params_for(method);
	size_t i, el = 0;
	if (nb == 0 || nb > 8192) return 0;
	for (i = 0; i < nb; ++i) { memset(&lc[i], 0, sizeof lc[i]); lc[i].value = bytes[i]; lc[i].len = 1; }
	if (!strcmp(method, "-lzs-")) return ref_lzs_serialise(lc, (int) nb, out, cap);
	if (!strcmp(method, "-lz5-")) return ref_lz5_serialise(lc, (int) nb, out, cap);
	if (M) {
		/* many small blocks (3, 5, 2, 7, ... commands): the decoder reading this stream starts new blocks all the time */
		static ref_lh_block b;
		static const int sizes[6] = { 3, 5, 2, 7, 1, 4 };
		ref_bw w;
		size_t k = 0;
		int bi = 0;
		ref_bw_init(&w, out, cap);
		while (k < nb) {
			int take = sizes[bi++ % 6];
			if ((size_t) take > nb - k) take = (int) (nb - k);
			if (!ref_lh_block_auto(M, &b, lc + k, take) || !ref_lh_write_block(M, &w, &b)) return 0;
			k += (size_t) take;
		}
		return w.overflow ? 0 : ref_bw_bytes(&w);
	}
	if (!strcmp(method, "-lh1-")) {
		static ref_lh1_tree t;
		ref_bw w;
		ref_lh1_start(&t);
		ref_bw_init(&w, out, cap);
		for (i = 0; i < nb; ++i) ref_lh1_put_cmd(&t, &w, &lc[i]);
		return w.overflow ? 0 : ref_bw_bytes(&w);
	}
	if (!strcmp(method, "-pm2-")) {
		ref_bw w;
		ref_pm2_enc e;
		uint8_t len[32], bl[32];
		static ref_pm2_ctable ct1, cts[8];
		static ref_pm2_otable ots[8];
		static int rr[8];
		int k;
		ref_balanced_lengths(29, bl);
		for (k = 0; k < 29; ++k) len[k] = bl[k];
		ref_pm2_ctable_from_lengths(&ct1, len, 29);
		for (k = 0; k < 8; ++k) { cts[k] = ct1; memset(&ots[k], 0, sizeof ots[k]); ref_balanced_lengths(k == 0 ? 5 : k == 1 ? 6 : k == 2 ? 7 : 8, ots[k].len); rr[k] = 0; }
		ref_bw_init(&w, out, cap);
		ref_pm2_enc_init(&e, &w, cts, ots, rr, 8, scratch, sizeof scratch);
		for (i = 0; i < nb; ++i) ref_pm2_put(&e, &lc[i]);
		if (e.error || w.overflow || e.out != nb) return 0;
		return ref_bw_bytes(&w);
	}
	if (!strcmp(method, "-pm1-")) {
		static ref_pm1_item it[64];
		int ni = 0;
		for (i = 0; i < nb && ni < 64; i += 200) { it[ni].copy = 0; it[ni].bytes = bytes + i; it[ni].nbytes = (int) (nb - i < 200 ? nb - i : 200); it[ni].range = -1; ++ni; }
		if (i < nb) return 0;
		return ref_pm1_serialise(0, it, ni, out, cap, scratch, sizeof scratch, &el);
	}
	return 0;
}
#endif
