#include "ref_lh.h"
#include <string.h>

const ref_lh_params REF_LH_METHODS[6] = {
	{ "-lh4-", 4, 13, 1u << 12, 0, 510 },
	{ "-lh5-", 4, 14, 1u << 13, 0, 510 },
	{ "-lh6-", 5, 16, 1u << 15, 0, 510 },
	{ "-lh7-", 5, 17, 1u << 16, 0, 510 },
	{ "-lhx-", 5, 20, 1u << 19, 0, 510 },
	{ "-lk7-", 6, 32, 1u << 16, 1, 289 },
};

const ref_lh_params *ref_lh_params_for(const char *name)
{
	int i;
	for (i = 0; i < 6; ++i)
		if (!strcmp(name, REF_LH_METHODS[i].name)) return &REF_LH_METHODS[i];
	return NULL;
}

static int bitlen(unsigned v)
{
	int n = 0;
	while (v) { ++n; v >>= 1; }
	return n;
}

int ref_lh_copy_symbols(const ref_lh_params *m, unsigned offset, unsigned len, int variant,
                        int *csym, unsigned *cextra, int *cextra_bits,
                        int *psym, unsigned *pextra, int *pextra_bits)
{
	*cextra = 0; *cextra_bits = 0; *pextra = 0; *pextra_bits = 0;
	if (offset >= m->window) return 0;
	if (!m->lhark) {
		if (len < 3 || len > 256) return 0;
		*csym = 256 + (int) len - 3;
		if (offset < 2) { *psym = (int) offset; }
		else {
			int p = bitlen(offset);
			*psym = p;
			*pextra_bits = p - 1;
			*pextra = offset - (1u << (p - 1));
		}
		return *psym < m->np;
	}
	/* LHARK */
	if (len < 3 || len > 514) return 0;
	if (len <= 10) {
		*csym = 253 + (int) len;
	} else if (len == 514 && variant) {
		*csym = 288;
	} else {
		int c, found = 0;
		for (c = 264; c < 288; ++c) {
			int k = (c - 260) / 4;
			unsigned base = ((4u + (unsigned) (c % 4)) << k) + 3;
			if (len >= base && len < base + (1u << k)) {
				*csym = c; *cextra_bits = k; *cextra = len - base; found = 1;
				break;
			}
		}
		if (!found) return 0;
	}
	if (offset < 4) { *psym = (int) offset; }
	else {
		int p, found = 0;
		for (p = 4; p < 64; ++p) {
			int k = (p - 2) / 2;
			unsigned base = (2u + (unsigned) (p % 2)) << k;
			if (offset >= base && offset < base + (1u << k)) {
				*psym = p; *pextra_bits = k; *pextra = offset - base; found = 1;
				break;
			}
		}
		if (!found) return 0;
	}
	return *psym < m->np;
}

void ref_lh_tokenise(ref_lh_block *b, int mode)
{
	int i = 0, n = b->c_n;
	(void) mode;
	b->ntok = 0;
	while (i < n) {
		int k = b->c_len[i++];
		if (k == 0) {
			int count = 1;
			while (i < n && b->c_len[i] == 0) { ++i; ++count; }
			if (count <= 2) {
				while (count--) { b->tok[b->ntok].t = 0; b->tok[b->ntok++].extra = 0; }
			} else if (count <= 18) {
				b->tok[b->ntok].t = 1; b->tok[b->ntok++].extra = (unsigned) count - 3;
			} else if (count == 19) {
				b->tok[b->ntok].t = 0; b->tok[b->ntok++].extra = 0;
				b->tok[b->ntok].t = 1; b->tok[b->ntok++].extra = 15;
			} else {
				b->tok[b->ntok].t = 2; b->tok[b->ntok++].extra = (unsigned) count - 20;
			}
		} else {
			b->tok[b->ntok].t = k + 2; b->tok[b->ntok++].extra = 0;
		}
	}
}

void ref_lh_temp_auto(ref_lh_block *b)
{
	int used[40], nused = 0, i, maxt = -1;
	uint8_t bl[40];
	memset(used, 0, sizeof used);
	memset(b->t_len, 0, sizeof b->t_len);
	for (i = 0; i < b->ntok; ++i) used[b->tok[i].t] = 1;
	for (i = 0; i < 40; ++i) if (used[i]) { ++nused; maxt = i; }
	if (nused <= 1) {
		b->t_n = 0;
		b->t_single = maxt < 0 ? 0 : maxt;
		b->t_skip = 0;
		return;
	}
	ref_balanced_lengths(nused, bl);
	nused = 0;
	for (i = 0; i <= maxt; ++i) if (used[i]) b->t_len[i] = bl[nused++];
	b->t_n = maxt + 1;
	/* LHA's own rule: count zero lengths from index 3 while below 6 */
	i = 3;
	while (i < 6 && b->t_len[i] == 0) ++i;
	b->t_skip = (i - 3) & 3;
}

int ref_lh_block_auto(const ref_lh_params *m, ref_lh_block *b, const ref_cmd *cmds, int n)
{
	int cused[520], pused[70], i, k, maxc = -1, maxp = -1, nc = 0, npu = 0;
	uint8_t bl[520];
	memset(cused, 0, sizeof cused);
	memset(pused, 0, sizeof pused);
	memset(b, 0, sizeof *b);
	b->cmds = cmds; b->ncmds = n;
	for (i = 0; i < n; ++i) {
		if (!cmds[i].copy) cused[cmds[i].value & 0xFF] = 1;
		else {
			int cs, ps, cb, pb; unsigned ce, pe;
			if (!ref_lh_copy_symbols(m, cmds[i].value, cmds[i].len, cmds[i].variant == 1, &cs, &ce, &cb, &ps, &pe, &pb)) return 0;
			cused[cs] = 1; pused[ps] = 1;
		}
	}
	for (i = 0; i < 520; ++i) if (cused[i]) { ++nc; maxc = i; }
	for (i = 0; i < 70; ++i) if (pused[i]) { ++npu; maxp = i; }
	if (nc <= 1) { b->c_n = 0; b->c_single = maxc < 0 ? 0 : maxc; }
	else {
		ref_balanced_lengths(nc, bl);
		for (i = 0, k = 0; i <= maxc; ++i) if (cused[i]) b->c_len[i] = bl[k++];
		b->c_n = maxc + 1;
	}
	if (npu <= 1) { b->p_n = 0; b->p_single = maxp < 0 ? 0 : maxp; }
	else {
		ref_balanced_lengths(npu, bl);
		for (i = 0, k = 0; i <= maxp; ++i) if (pused[i]) b->p_len[i] = bl[k++];
		b->p_n = maxp + 1;
	}
	ref_lh_tokenise(b, 0);
	ref_lh_temp_auto(b);
	return 1;
}

static void put_len(ref_bw *w, int len)
{
	if (len < 7) ref_bw_put(w, (uint32_t) len, 3);
	else {
		int i;
		ref_bw_put(w, 7, 3);
		for (i = 7; i < len; ++i) ref_bw_put(w, 1, 1);
		ref_bw_put(w, 0, 1);
	}
}

int ref_lh_write_block(const ref_lh_params *m, ref_bw *w, const ref_lh_block *b)
{
	uint32_t tcode[40], ccode[520], pcode[70];
	int i;
	ref_bw_put(w, (uint32_t) (b->count_override > 0 ? b->count_override : b->ncmds), 16);
	/* temp table */
	ref_bw_put(w, (uint32_t) b->t_n, 5);
	if (b->t_n == 0) {
		ref_bw_put(w, (uint32_t) b->t_single, 5);
	} else {
		if (!ref_canon_codes(b->t_len, b->t_n > 32 ? 32 : b->t_n, tcode)) return 0;
		for (i = 0; i < b->t_n; ++i) {
			put_len(w, b->t_len[i]);
			if (i == 2) {
				int s;
				ref_bw_put(w, (uint32_t) b->t_skip, 2);
				for (s = 0; s < b->t_skip; ++s) {
					++i;
					if (i < b->t_n && b->t_len[i] != 0) return 0;
				}
			}
		}
	}
	/* code table */
	ref_bw_put(w, (uint32_t) b->c_n, 9);
	if (b->c_n == 0) {
		ref_bw_put(w, (uint32_t) b->c_single, 9);
	} else {
		if (!ref_canon_codes(b->c_len, b->c_n, ccode)) return 0;
		for (i = 0; i < b->ntok; ++i) {
			int t = b->tok[i].t;
			if (b->t_n != 0) {
				if (b->t_len[t] == 0) return 0;
				ref_bw_put(w, tcode[t], b->t_len[t]);
			} else if (t != b->t_single) return 0;
			if (t == 1) ref_bw_put(w, b->tok[i].extra, 4);
			else if (t == 2) ref_bw_put(w, b->tok[i].extra, 9);
		}
	}
	/* offset table */
	ref_bw_put(w, (uint32_t) b->p_n, m->pbits);
	if (b->p_n == 0) {
		ref_bw_put(w, (uint32_t) b->p_single, m->pbits);
	} else {
		if (!ref_canon_codes(b->p_len, b->p_n, pcode)) return 0;
		for (i = 0; i < b->p_n; ++i) put_len(w, b->p_len[i]);
	}
	/* commands */
	for (i = 0; i < b->ncmds; ++i) {
		const ref_cmd *c = &b->cmds[i];
		int cs, ps = 0, cb = 0, pb = 0; unsigned ce = 0, pe = 0;
		if (!c->copy) cs = (int) (c->value & 0xFF);
		else if (!ref_lh_copy_symbols(m, c->value, c->len, c->variant == 1, &cs, &ce, &cb, &ps, &pe, &pb)) return 0;
		if (b->c_n == 0) { if (cs != b->c_single) return 0; }
		else { if (cs >= b->c_n || b->c_len[cs] == 0) return 0; ref_bw_put(w, ccode[cs], b->c_len[cs]); }
		if (c->copy) {
			ref_bw_put(w, ce, cb);
			if (b->p_n == 0) { if (ps != b->p_single) return 0; }
			else { if (ps >= b->p_n || b->p_len[ps] == 0) return 0; ref_bw_put(w, pcode[ps], b->p_len[ps]); }
			ref_bw_put(w, pe, pb);
		}
	}
	return !w->overflow;
}

/* ------------------------------------------------------------------ decoder */

static int get_len(ref_br *r)
{
	int v = (int) ref_br_get(r, 3);
	if (v == 7) while (ref_br_get(r, 1) && !r->overrun) ++v;
	return v;
}

size_t ref_lh_decode(const ref_lh_params *m, const uint8_t *in, size_t n, size_t declared, uint8_t *out, int *err)
{
	ref_br r;
	size_t o = 0;
	uint8_t tl[64], cl[520], pl[70];
	uint32_t tc[64], cc[520], pc[70];
	ref_canon_tab ct, pt;
	int tn, cn, pn, tsingle = 0, csingle = 0, psingle = 0;
	*err = 0;
	ref_br_init(&r, in, n);
	while (o < declared) {
		unsigned count = ref_br_get(&r, 16), k;
		int i;
		if (r.overrun) return o;           /* end of data */
		if (count == 0) { *err = 1; return o; }
		memset(tl, 0, sizeof tl); memset(cl, 0, sizeof cl); memset(pl, 0, sizeof pl);
		tn = (int) ref_br_get(&r, 5);
		if (tn == 0) tsingle = (int) ref_br_get(&r, 5);
		else {
			for (i = 0; i < tn; ++i) {
				tl[i] = (uint8_t) get_len(&r);
				if (i == 2) i += (int) ref_br_get(&r, 2);
			}
			if (!ref_canon_codes(tl, tn > 32 ? 32 : tn, tc)) { *err = 1; return o; }
		}
		cn = (int) ref_br_get(&r, 9);
		if (cn == 0) csingle = (int) ref_br_get(&r, 9);
		else {
			if (cn > m->nc) { *err = 1; return o; }
			i = 0;
			while (i < cn) {
				int t = tn == 0 ? tsingle : ref_canon_decode(&r, tl, tc, tn);
				if (t < 0) { *err = 1; return o; }
				if (t == 0) cl[i++] = 0;
				else if (t == 1) { int z = (int) ref_br_get(&r, 4) + 3; while (z-- && i < 520) cl[i++] = 0; }
				else if (t == 2) { int z = (int) ref_br_get(&r, 9) + 20; while (z-- && i < 520) cl[i++] = 0; }
				else cl[i++] = (uint8_t) (t - 2);
			}
			if (i > cn) { *err = 1; return o; }
			if (!ref_canon_codes(cl, cn, cc)) { *err = 1; return o; }
			ref_canon_tab_build(&ct, cl, cn);
		}
		pn = (int) ref_br_get(&r, m->pbits);
		if (pn == 0) psingle = (int) ref_br_get(&r, m->pbits);
		else {
			if (pn > m->np) { *err = 1; return o; }
			for (i = 0; i < pn; ++i) pl[i] = (uint8_t) get_len(&r);
			if (!ref_canon_codes(pl, pn, pc)) { *err = 1; return o; }
			ref_canon_tab_build(&pt, pl, pn);
		}
		if (r.overrun) { *err = 1; return o; }
		for (k = 0; k < count && o < declared; ++k) {
			int c = cn == 0 ? csingle : ref_canon_tab_decode(&r, &ct);
			if (c < 0 || r.overrun) { if (c < 0) *err = 1; return o; }
			if (c < 256) out[o++] = (uint8_t) c;
			else {
				unsigned len, off, j;
				int p;
				if (!m->lhark) len = (unsigned) c - 253;
				else if (c < 264) len = (unsigned) c - 253;
				else if (c < 288) { int kb = (c - 260) / 4; len = ((4u + (unsigned) (c % 4)) << kb) + ref_br_get(&r, kb) + 3; }
				else if (c == 288) len = 514;
				else { *err = 1; return o; }
				p = pn == 0 ? psingle : ref_canon_tab_decode(&r, &pt);
				if (p < 0) { *err = 1; return o; }
				if (!m->lhark) off = p < 2 ? (unsigned) p : (1u << (p - 1)) + ref_br_get(&r, p - 1);
				else if (p < 4) off = (unsigned) p;
				else { int kb = (p - 2) / 2; off = ((2u + (unsigned) (p % 2)) << kb) + ref_br_get(&r, kb); }
				if (r.overrun) return o;
				for (j = 0; j < len && o < declared; ++j) {
					out[o] = o > off ? out[o - off - 1] : 0x20;
					++o;
				}
			}
		}
	}
	return o;
}
