#include "ref_lh1.h"
#include <string.h>

#define N_CHAR LH1_NCHAR
#define T LH1_T
#define R LH1_R
#define MAX_FREQ 0x8000

void ref_lh1_start(ref_lh1_tree *t)
{
	int i, j;
	memset(t, 0, sizeof *t);
	for (i = 0; i < N_CHAR; i++) {
		t->freq[i] = 1;
		t->son[i] = i + T;
		t->prnt[i + T] = i;
	}
	i = 0; j = N_CHAR;
	while (j <= R) {
		t->freq[j] = t->freq[i] + t->freq[i + 1];
		t->son[j] = i;
		t->prnt[i] = t->prnt[i + 1] = j;
		i += 2; j++;
	}
	t->freq[T] = 0xffff;
	t->prnt[R] = 0;
}

static void reconst(ref_lh1_tree *t)
{
	int i, j, k;
	unsigned f;
	++t->rebuilds;
	/* leaves to the front, frequencies halved rounding up */
	j = 0;
	for (i = 0; i < T; i++) {
		if (t->son[i] >= T) {
			t->freq[j] = (t->freq[i] + 1) / 2;
			t->son[j] = t->son[i];
			j++;
		}
	}
	/* internal nodes inserted in frequency order */
	for (i = 0, j = N_CHAR; j < T; i += 2, j++) {
		int m;
		k = i + 1;
		f = t->freq[j] = t->freq[i] + t->freq[k];
		for (k = j - 1; f < t->freq[k]; k--);
		k++;
		for (m = j; m > k; --m) { t->freq[m] = t->freq[m - 1]; t->son[m] = t->son[m - 1]; }
		t->freq[k] = f;
		t->son[k] = i;
	}
	for (i = 0; i < T; i++) {
		if ((k = t->son[i]) >= T) t->prnt[k] = i;
		else t->prnt[k] = t->prnt[k + 1] = i;
	}
}

void ref_lh1_update(ref_lh1_tree *t, int c)
{
	int i, j, l;
	unsigned k;
	if (t->freq[R] == MAX_FREQ) reconst(t);
	c = t->prnt[c + T];
	do {
		k = ++t->freq[c];
		if (k > t->freq[l = c + 1]) {
			while (k > t->freq[++l]);
			l--;
			t->freq[c] = t->freq[l];
			t->freq[l] = k;
			i = t->son[c];
			t->prnt[i] = l;
			if (i < T) t->prnt[i + 1] = l;
			j = t->son[l];
			t->son[l] = i;
			t->prnt[j] = c;
			if (j < T) t->prnt[j + 1] = c;
			t->son[c] = j;
			c = l;
		}
	} while ((c = t->prnt[c]) != 0);
}

int ref_lh1_code(const ref_lh1_tree *t, int c, uint64_t *code_hi, uint64_t *code_lo)
{
	/* travel from leaf to root; bit = parity of the node address; collected bits are emitted root first */
	uint8_t bits[700];
	int n = 0, k = t->prnt[c + T], i;
	uint64_t hi = 0, lo = 0;
	do {
		bits[n++] = (uint8_t) (k & 1);
	} while ((k = t->prnt[k]) != R);
	for (i = n - 1; i >= 0; --i) {
		hi = (hi << 1) | (lo >> 63);
		lo = (lo << 1) | bits[i];
	}
	*code_hi = hi; *code_lo = lo;
	return n;
}

void ref_lh1_put_symbol(ref_lh1_tree *t, ref_bw *w, int c)
{
	uint8_t bits[700];
	int n = 0, k = t->prnt[c + T], i;
	do {
		bits[n++] = (uint8_t) (k & 1);
	} while ((k = t->prnt[k]) != R);
	for (i = n - 1; i >= 0; --i) ref_bw_put(w, bits[i], 1);
	ref_lh1_update(t, c);
}

/* upper six bits: canonical code with 1,3,8,12,24,16 words of 3..8 bits */
static void upper_code(unsigned u, unsigned *code, int *len)
{
	static const int cnt[6] = { 1, 3, 8, 12, 24, 16 };
	unsigned next = 0, idx = 0;
	int l, j, prev = 0;
	for (l = 0; l < 6; ++l) {
		for (j = 0; j < cnt[l]; ++j) {
			int L = l + 3;
			if (prev) next = (next + 1) << (L - prev);
			prev = L;
			if (idx == u) { *code = next; *len = L; return; }
			++idx;
		}
	}
	*code = 0; *len = 0;
}

void ref_lh1_put_position(ref_bw *w, unsigned offset)
{
	unsigned code; int len;
	upper_code(offset >> 6, &code, &len);
	ref_bw_put(w, code, len);
	ref_bw_put(w, offset & 0x3f, 6);
}

void ref_lh1_put_cmd(ref_lh1_tree *t, ref_bw *w, const ref_cmd *c)
{
	if (!c->copy) ref_lh1_put_symbol(t, w, (int) (c->value & 0xFF));
	else {
		ref_lh1_put_symbol(t, w, 253 + (int) c->len);
		ref_lh1_put_position(w, c->value);
	}
}

size_t ref_lh1_decode(const uint8_t *in, size_t n, size_t declared, uint8_t *out)
{
	static ref_lh1_tree t;
	ref_br r;
	size_t o = 0;
	ref_lh1_start(&t);
	ref_br_init(&r, in, n);
	while (o < declared) {
		int c = t.son[R];
		while (c < T) {
			c += (int) ref_br_get(&r, 1);
			c = t.son[c];
		}
		if (r.overrun) break;
		c -= T;
		ref_lh1_update(&t, c);
		if (c < 256) out[o++] = (uint8_t) c;
		else {
			unsigned len = (unsigned) c - 253, u, off = 0, j, code = 0;
			int l = 0, found = 0;
			/* decode the upper six bits by matching the canonical code */
			while (!found && l < 8) {
				code = (code << 1) | ref_br_get(&r, 1);
				++l;
				for (u = 0; u < 64 && !found; ++u) {
					unsigned cc; int cl;
					upper_code(u, &cc, &cl);
					if (cl == l && cc == code) { found = 1; off = u; }
				}
			}
			off = (off << 6) | ref_br_get(&r, 6);
			if (r.overrun) break;
			for (j = 0; j < len && o < declared; ++j) {
				out[o] = o > off ? out[o - off - 1] : 0x20;
				++o;
			}
		}
	}
	return o;
}
