#include "ref_crc16.h"
uint16_t ref_crc16_step(uint16_t crc, uint8_t b)
{
	int i;
	crc ^= b;
	for (i = 0; i < 8; ++i)
		crc = (crc & 1) ? (uint16_t) ((crc >> 1) ^ 0xA001) : (uint16_t) (crc >> 1);
	return crc;
}
uint16_t ref_crc16(uint16_t crc, const uint8_t *p, size_t n)
{
	size_t i;
	for (i = 0; i < n; ++i) crc = ref_crc16_step(crc, p[i]);
	return crc;
}
