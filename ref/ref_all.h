#ifndef REF_ALL_H
#define REF_ALL_H
#include "ref_lz.h"
#include "ref_lh.h"
#include "ref_crc16.h"
/* decode with the reference decoder of 'method'; returns bytes produced, -1 when there is no reference
 * decoder for the method.  *err: malformed stream detected. */
long ref_decode(const char *method, const uint8_t *in, size_t n, size_t declared, uint8_t *out, int *err);
#endif
