/* LHA static Huffman family (-lh4- -lh5- -lh6- -lh7- -lhx- and LHARK's -lk7-): DESIGN.md A.2 */
#ifndef REF_LH_H
#define REF_LH_H
#include "ref_lz.h"
#include "ref_huff.h"

typedef struct {
	const char *name;
	int pbits;          /* width of the offset-table count field */
	int np;             /* number of valid offset symbols */
	unsigned window;    /* official window size */
	int lhark;
	int nc;             /* command alphabet */
} ref_lh_params;

extern const ref_lh_params REF_LH_METHODS[6];   /* lh4 lh5 lh6 lh7 lhx lk7 */
const ref_lh_params *ref_lh_params_for(const char *name);

typedef struct { int t; unsigned extra; } ref_tok;   /* temp symbol; t=1: 4 extra bits, t=2: 9 extra bits */

typedef struct {
	int ncmds;
	const ref_cmd *cmds;
	/* temp table */
	int t_n, t_single, t_skip;
	uint8_t t_len[40];
	/* code table */
	int c_n, c_single, ntok;
	ref_tok tok[600];
	uint8_t c_len[520];
	/* offset table */
	int p_n, p_single;
	uint8_t p_len[70];
	/* form selection for ref_lh_block_auto */
	int count_override;   /* >0: value written in the 16-bit count field */
} ref_lh_block;

/* command -> symbols.  Returns 0 when the command is not expressible for the method. */
int ref_lh_copy_symbols(const ref_lh_params *m, unsigned offset, unsigned len, int variant,
                        int *csym, unsigned *cextra, int *cextra_bits,
                        int *psym, unsigned *pextra, int *pextra_bits);

/* tokenise code lengths c_len[0..c_n) into b->tok: mode 0 = greedy (LHA's own), mode 1 = all single zeros where
 * legal, mode 2 = short runs (3..18 pieces), mode 3 = long-run tokens padded with singles */
void ref_lh_tokenise(ref_lh_block *b, int mode);

/* fill in tables for a block from its commands: balanced codes over the used symbols, greedy tokens,
 * trimmed tables.  Returns 0 when a command is not expressible. */
int ref_lh_block_auto(const ref_lh_params *m, ref_lh_block *b, const ref_cmd *cmds, int n);
/* (re)build the temp table from the tokens present: balanced code over used temp symbols */
void ref_lh_temp_auto(ref_lh_block *b);

/* write one block; returns 0 when something is inconsistent (harness error) */
int ref_lh_write_block(const ref_lh_params *m, ref_bw *w, const ref_lh_block *b);

/* straightforward decoder: at most 'declared' bytes into out; returns produced.  *err set when the
 * stream is malformed (incomplete code hit, table overrun) */
size_t ref_lh_decode(const ref_lh_params *m, const uint8_t *in, size_t n, size_t declared, uint8_t *out, int *err);
#endif
