/* PMarc -pm2- and -pm1-: DESIGN.md A.5, A.6 */
#ifndef REF_PM_H
#define REF_PM_H
#include "ref_lz.h"
#include "ref_huff.h"

/* move-to-front list with the PMarc starting order */
typedef struct { uint8_t v[256]; } ref_mtf;
void ref_mtf_init(ref_mtf *m);
int ref_mtf_pos(const ref_mtf *m, uint8_t b);
uint8_t ref_mtf_at(const ref_mtf *m, int pos);
void ref_mtf_touch(ref_mtf *m, uint8_t b);

/* ---- pm2 ---- */
typedef struct {
	int n;              /* 5-bit count field */
	int min_len;        /* 3-bit field; 0 = single symbol n-1 */
	int length_bits;    /* 3-bit field */
	uint8_t len[32];    /* code lengths of symbols 0..n-1 (0 = unused) */
} ref_pm2_ctable;

typedef struct { uint8_t len[8]; } ref_pm2_otable;

typedef struct {
	ref_bw *w;
	ref_mtf mtf;
	size_t out;                 /* bytes output so far */
	int event;                  /* next schedule event index */
	ref_pm2_ctable ct;
	ref_pm2_otable ot;
	int need_offset;
	uint32_t ccode[32], ocode[8];
	int osingle;                /* >=0: single offset symbol */
	/* plan */
	const ref_pm2_ctable *ctables;   /* [event] */
	const ref_pm2_otable *otables;   /* [event] */
	const int *reread;               /* [event] for events >= 3 */
	int nplan;
	int error;
	uint8_t *expect; size_t ecap;    /* expected output, maintained by the encoder */
} ref_pm2_enc;

void ref_pm2_enc_init(ref_pm2_enc *e, ref_bw *w, const ref_pm2_ctable *ct, const ref_pm2_otable *ot,
                      const int *reread, int nplan, uint8_t *expect, size_t ecap);
/* variant: 1 = express length 256 with symbol 28 (requires offset 0) */
void ref_pm2_put(ref_pm2_enc *e, const ref_cmd *c);
/* symbol needed for a command in the current state (-1 if not expressible); *osym offset symbol or -1 */
int ref_pm2_symbol_for(const ref_pm2_enc *e, const ref_cmd *c, int *osym);
size_t ref_pm2_decode(const uint8_t *in, size_t n, size_t declared, uint8_t *out, int *err);
/* fill a ctable from code lengths: picks n = last used + 1, min_len/length_bits minimal */
int ref_pm2_ctable_from_lengths(ref_pm2_ctable *t, const uint8_t *len, int nsyms);

/* ---- pm1 ---- */
typedef struct {
	int copy;                /* 0 = byte block, 1 = copy */
	const uint8_t *bytes; int nbytes;
	unsigned dist, len;      /* copy reads dist+1 back */
	int range;               /* -1 = first range that can express it */
} ref_pm1_item;

extern const char *REF_PM1_TREES[32];
/* serialise; returns bytes, 0 on a structural error.  expect receives the expansion, *elen its length */
size_t ref_pm1_serialise(int header, const ref_pm1_item *it, int n, uint8_t *out, size_t cap,
                         uint8_t *expect, size_t ecap, size_t *elen);
size_t ref_pm1_decode(const uint8_t *in, size_t n, size_t declared, uint8_t *out, int *err);
#endif
