#include "ref_pm.h"
#include <string.h>

/* ------------------------------------------------------------------ MTF */

void ref_mtf_init(ref_mtf *m)
{
	/* 20..7F, 00..1F, A0..DF, 80..9F, E0..FF */
	static const int seg[5][2] = { { 0x20, 0x7F }, { 0x00, 0x1F }, { 0xA0, 0xDF }, { 0x80, 0x9F }, { 0xE0, 0xFF } };
	int s, v, k = 0;
	for (s = 0; s < 5; ++s)
		for (v = seg[s][0]; v <= seg[s][1]; ++v) m->v[k++] = (uint8_t) v;
}

int ref_mtf_pos(const ref_mtf *m, uint8_t b)
{
	int i;
	for (i = 0; i < 256; ++i) if (m->v[i] == b) return i;
	return -1;
}

uint8_t ref_mtf_at(const ref_mtf *m, int pos) { return m->v[pos & 0xFF]; }

void ref_mtf_touch(ref_mtf *m, uint8_t b)
{
	int p = ref_mtf_pos(m, b);
	memmove(m->v + 1, m->v, (size_t) p);
	m->v[0] = b;
}

/* ------------------------------------------------------------------ pm2 */

static const int PM2_BYTE[8][2] = { { 0, 3 }, { 8, 3 }, { 16, 4 }, { 32, 5 }, { 64, 5 }, { 96, 5 }, { 128, 6 }, { 192, 6 } };
static const int PM2_LEN[6][2] = { { 17, 3 }, { 25, 3 }, { 33, 5 }, { 65, 6 }, { 129, 7 }, { 256, 0 } };

static void pm2_load_ctable(ref_pm2_enc *e, const ref_pm2_ctable *t)
{
	e->ct = *t;
	e->need_offset = t->n >= 10 && !(t->n == 29 && t->min_len == 0);
	if (t->min_len != 0) {
		if (!ref_canon_codes(t->len, t->n, e->ccode)) e->error = 1;
	}
}

static void pm2_write_ctable(ref_pm2_enc *e, const ref_pm2_ctable *t)
{
	int i;
	ref_bw_put(e->w, (uint32_t) t->n, 5);
	ref_bw_put(e->w, (uint32_t) t->min_len, 3);
	if (t->min_len != 0) {
		ref_bw_put(e->w, (uint32_t) t->length_bits, 3);
		for (i = 0; i < t->n; ++i) {
			uint32_t v = t->len[i] ? (uint32_t) (t->len[i] - t->min_len + 1) : 0;
			if (t->len[i] && (t->len[i] < t->min_len || v >= (1u << t->length_bits))) e->error = 1;
			ref_bw_put(e->w, v, t->length_bits);
		}
	}
	pm2_load_ctable(e, t);
}

static void pm2_write_otable(ref_pm2_enc *e, const ref_pm2_otable *t, int entries)
{
	int i, nz = 0, last = -1;
	if (!e->need_offset) return;
	for (i = 0; i < entries; ++i) {
		ref_bw_put(e->w, t->len[i], 3);
		if (t->len[i]) { ++nz; last = i; }
	}
	memset(&e->ot, 0, sizeof e->ot);
	memcpy(e->ot.len, t->len, (size_t) entries);
	e->osingle = -1;
	if (nz == 1) e->osingle = last;
	else if (nz == 0) e->osingle = -2;            /* no usable offset code */
	else if (!ref_canon_codes(e->ot.len, entries, e->ocode)) e->error = 1;
}

static void pm2_event(ref_pm2_enc *e)
{
	int ev = e->event++;
	int pi = ev < e->nplan ? ev : e->nplan - 1;
	if (ev == 0) {
		ref_bw_put(e->w, 0, 1);                     /* one discarded bit */
		pm2_write_ctable(e, &e->ctables[pi]);
		pm2_write_otable(e, &e->otables[pi], 5);
	} else if (ev == 1) {
		pm2_write_otable(e, &e->otables[pi], 6);
	} else if (ev == 2) {
		pm2_write_otable(e, &e->otables[pi], 7);
	} else if (ev == 3) {
		ref_bw_put(e->w, (uint32_t) (e->reread[pi] ? 1 : 0), 1);
		if (e->reread[pi]) pm2_write_ctable(e, &e->ctables[pi]);
		pm2_write_otable(e, &e->otables[pi], 8);
	} else {
		ref_bw_put(e->w, (uint32_t) (e->reread[pi] ? 1 : 0), 1);
		if (e->reread[pi]) {
			pm2_write_ctable(e, &e->ctables[pi]);
			pm2_write_otable(e, &e->otables[pi], 8);
		}
	}
}

static size_t pm2_next_threshold(int event)
{
	/* event index -> output count at which it fires */
	switch (event) {
	case 0: return 0;
	case 1: return 1024;
	case 2: return 2048;
	case 3: return 4096;
	default: return 8192 + (size_t) (event - 4) * 4096;
	}
}

void ref_pm2_enc_init(ref_pm2_enc *e, ref_bw *w, const ref_pm2_ctable *ct, const ref_pm2_otable *ot,
                      const int *reread, int nplan, uint8_t *expect, size_t ecap)
{
	memset(e, 0, sizeof *e);
	e->w = w;
	ref_mtf_init(&e->mtf);
	e->ctables = ct; e->otables = ot; e->reread = reread; e->nplan = nplan;
	e->expect = expect; e->ecap = ecap;
	e->osingle = -2;
	pm2_event(e);
}

static void pm2_out(ref_pm2_enc *e, uint8_t b, int *fired)
{
	if (e->out < e->ecap) e->expect[e->out] = b;
	++e->out;
	ref_mtf_touch(&e->mtf, b);
	if (e->out == pm2_next_threshold(e->event)) *fired = 1;
}

int ref_pm2_symbol_for(const ref_pm2_enc *e, const ref_cmd *c, int *osym)
{
	*osym = -1;
	if (!c->copy) {
		int p = ref_mtf_pos(&e->mtf, (uint8_t) c->value), s;
		for (s = 0; s < 8; ++s)
			if (p >= PM2_BYTE[s][0] && p < PM2_BYTE[s][0] + (1 << PM2_BYTE[s][1])) return s;
		return -1;
	} else {
		int cc = -1, k;
		if (c->len >= 2 && c->len <= 16) cc = (int) c->len - 2;
		else if (c->len == 256 && c->variant == 1) cc = 20;
		else for (k = 0; k < 5; ++k)
			if ((int) c->len >= PM2_LEN[k][0] && (int) c->len < PM2_LEN[k][0] + (1 << PM2_LEN[k][1])) cc = 15 + k;
		if (cc < 0) return -1;
		if (cc == 0) { if (c->value >= 64) return -1; }
		else if (cc == 20) { if (c->value != 0) return -1; }
		else {
			if (c->value < 64) *osym = 0;
			else { int v = 1; while (v < 8 && c->value >= (2u << (v + 5))) ++v; if (v >= 8) return -1; *osym = v; }
		}
		return cc + 8;
	}
}

void ref_pm2_put(ref_pm2_enc *e, const ref_cmd *c)
{
	int osym, s = ref_pm2_symbol_for(e, c, &osym), fired = 0;
	unsigned k;
	if (s < 0) { e->error = 1; return; }
	/* code symbol */
	if (e->ct.min_len == 0) { if (s != e->ct.n - 1) { e->error = 1; return; } }
	else {
		if (s >= e->ct.n || e->ct.len[s] == 0) { e->error = 1; return; }
		ref_bw_put(e->w, e->ccode[s], e->ct.len[s]);
	}
	if (!c->copy) {
		int p = ref_mtf_pos(&e->mtf, (uint8_t) c->value);
		ref_bw_put(e->w, (uint32_t) (p - PM2_BYTE[s][0]), PM2_BYTE[s][1]);
		pm2_out(e, (uint8_t) c->value, &fired);
	} else {
		int cc = s - 8;
		if (cc >= 15) ref_bw_put(e->w, (uint32_t) ((int) c->len - PM2_LEN[cc - 15][0]), PM2_LEN[cc - 15][1]);
		if (cc == 0) ref_bw_put(e->w, c->value, 6);
		else if (cc < 20) {
			if (!e->need_offset) { e->error = 1; return; }
			if (e->osingle >= 0) { if (osym != e->osingle) { e->error = 1; return; } }
			else if (e->osingle == -2 || e->ot.len[osym] == 0) { e->error = 1; return; }
			else ref_bw_put(e->w, e->ocode[osym], e->ot.len[osym]);
			if (osym == 0) ref_bw_put(e->w, c->value, 6);
			else ref_bw_put(e->w, c->value - (1u << (osym + 5)), osym + 5);
		}
		for (k = 0; k < c->len; ++k) {
			size_t dist = (size_t) c->value + 1;
			uint8_t b = e->out >= dist ? (e->out - dist < e->ecap ? e->expect[e->out - dist] : 0) : 0x20;
			int f = 0;
			pm2_out(e, b, &f);
			if (f) {
				/* the decoder reads the table at this very byte: the bits follow the command's bits */
				pm2_event(e);
			}
		}
		return;
	}
	if (fired) pm2_event(e);
}

int ref_pm2_ctable_from_lengths(ref_pm2_ctable *t, const uint8_t *len, int nsyms)
{
	int i, mn = 99, mx = 0, used = 0, last = -1;
	memset(t, 0, sizeof *t);
	for (i = 0; i < nsyms; ++i) if (len[i]) { ++used; last = i; if (len[i] < mn) mn = len[i]; if (len[i] > mx) mx = len[i]; }
	if (used == 0) return 0;
	if (used == 1) { t->n = last + 1; t->min_len = 0; return 1; }
	t->n = last + 1;
	t->min_len = mn > 7 ? 7 : mn;
	for (t->length_bits = 1; (1 << t->length_bits) - 1 < mx - t->min_len + 1; ++t->length_bits);
	if (t->length_bits > 7) return 0;
	memcpy(t->len, len, (size_t) t->n);
	return 1;
}

size_t ref_pm2_decode(const uint8_t *in, size_t n, size_t declared, uint8_t *out, int *err)
{
	ref_br r;
	ref_mtf mtf;
	size_t o = 0;
	int event = 0, need_offset = 0, csingle = -1, osingle = -2, cn = 0, on = 0;
	uint8_t cl[32], ol[8];
	uint32_t cc[32], oc[8];
	*err = 0;
	ref_br_init(&r, in, n);
	ref_mtf_init(&mtf);
	memset(cl, 0, sizeof cl); memset(ol, 0, sizeof ol);
#define READ_CTABLE() do { \
		int i_, m_, w_; \
		cn = (int) ref_br_get(&r, 5); m_ = (int) ref_br_get(&r, 3); \
		need_offset = cn >= 10 && !(cn == 29 && m_ == 0); \
		memset(cl, 0, sizeof cl); \
		if (m_ == 0) { csingle = cn - 1; if (csingle < 0 || csingle > 28) { *err = 1; return o; } } \
		else { csingle = -1; w_ = (int) ref_br_get(&r, 3); \
			for (i_ = 0; i_ < cn; ++i_) { int v_ = (int) ref_br_get(&r, w_); cl[i_] = (uint8_t) (v_ ? m_ + v_ - 1 : 0); } \
			if (cn > 29 || !ref_canon_codes(cl, cn, cc)) { *err = 1; return o; } } \
	} while (0)
#define READ_OTABLE(k_) do { \
		if (need_offset) { int i_, nz_ = 0, last_ = -1; on = (k_); memset(ol, 0, sizeof ol); \
			for (i_ = 0; i_ < (k_); ++i_) { ol[i_] = (uint8_t) ref_br_get(&r, 3); if (ol[i_]) { ++nz_; last_ = i_; } } \
			if (nz_ == 1) osingle = last_; else if (nz_ == 0) osingle = -2; \
			else { osingle = -1; if (!ref_canon_codes(ol, (k_), oc)) { *err = 1; return o; } } } \
	} while (0)
#define FIRE() do { \
		int ev_ = event++; \
		if (ev_ == 1) READ_OTABLE(6); else if (ev_ == 2) READ_OTABLE(7); \
		else if (ev_ == 3) { if (ref_br_get(&r, 1)) READ_CTABLE(); READ_OTABLE(8); } \
		else if (ev_ >= 4) { if (ref_br_get(&r, 1)) { READ_CTABLE(); READ_OTABLE(8); } } \
	} while (0)
	ref_br_get(&r, 1);
	READ_CTABLE();
	READ_OTABLE(5);
	event = 1;
	while (o < declared) {
		int s = csingle >= 0 ? csingle : ref_canon_decode(&r, cl, cc, cn);
		if (r.overrun) return o;
		if (s < 0 || s > 28) { *err = 1; return o; }
		if (s < 8) {
			int p = PM2_BYTE[s][0] + (int) ref_br_get(&r, PM2_BYTE[s][1]);
			uint8_t b;
			if (r.overrun) return o;
			b = ref_mtf_at(&mtf, p);
			out[o++] = b;
			ref_mtf_touch(&mtf, b);
			if (o == pm2_next_threshold(event)) FIRE();
		} else {
			int c = s - 8, v;
			unsigned len, off, k;
			if (c < 15) len = (unsigned) c + 2;
			else len = (unsigned) PM2_LEN[c - 15][0] + ref_br_get(&r, PM2_LEN[c - 15][1]);
			if (c == 0) off = ref_br_get(&r, 6);
			else if (c < 20) {
				if (!need_offset || osingle == -2) { *err = 1; return o; }
				v = osingle >= 0 ? osingle : ref_canon_decode(&r, ol, oc, on);
				if (v < 0) { *err = 1; return o; }
				off = v == 0 ? ref_br_get(&r, 6) : (1u << (v + 5)) + ref_br_get(&r, v + 5);
			} else off = 0;
			if (r.overrun) return o;
			for (k = 0; k < len && o < declared; ++k) {
				uint8_t b = o > off ? out[o - off - 1] : 0x20;
				out[o++] = b;
				ref_mtf_touch(&mtf, b);
				if (o == pm2_next_threshold(event)) FIRE();
			}
		}
	}
	return o;
}

/* ------------------------------------------------------------------ pm1 */

const char *REF_PM1_TREES[32] = {
	"((((ab)c)d)(ef))", "(((ab)(cf))(de))", "(((ab)c)(d(ef)))", "((a(bc))(d(ef)))",
	"((a(bd))(c(ef)))", "((a(b(ef)))(cd))", "((ab)((cd)(ef)))", "((ab)((c(ef))d))",
	"((ab)(c(d(ef))))", "(a(((bf)c)(de)))", "(a(((b(ef))c)d))", "(a(((bc)d)(ef)))",
	"(a((b(cf))(de)))", "(a((bc)(d(ef))))", "(a((b(d(ef)))c))", "(a(b((cd)(ef))))",
	"(a(b(c(d(ef)))))", "(((de)c)(de))", "((a(be))(cd))", "((ab)(c(de)))",
	"(a(((be)c)d))", "(a((bc)(de)))", "(a((b(de))c))", "(a(b(c(de))))",
	"(((ab)c)d)", "((a(bd))c)", "((ab)(cd))", "(a((bd)c))",
	"(a(b(cd)))", "(a(bc))", "(ab)", "a",
};

static const int PM1_BYTE[6][2] = { { 0, 4 }, { 16, 4 }, { 32, 5 }, { 64, 6 }, { 128, 6 }, { 192, 6 } };

/* path of class letter in the S-expression: first child = bit 0.  Returns length or -1. */
static int tree_path(const char *t, char letter, uint8_t *bits)
{
	/* recursive descent with an explicit position */
	int depth = 0, i;
	int child[32];       /* which child we are in at each depth */
	for (i = 0; t[i]; ++i) {
		if (t[i] == '(') { child[depth++] = 0; }
		else if (t[i] == ')') { --depth; if (depth > 0) ++child[depth - 1]; }
		else {
			if (t[i] == letter) {
				int k;
				for (k = 0; k < depth; ++k) bits[k] = (uint8_t) child[k];
				return depth;
			}
			if (depth > 0) ++child[depth - 1];
		}
	}
	return -1;
}

static int tree_decode(const char *t, ref_br *r)
{
	/* walk: at '(' read a bit: 0 -> first child, 1 -> skip first child */
	int i = 0;
	for (;;) {
		if (t[i] != '(') return t[i] - 'a';
		++i;
		if (ref_br_get(r, 1)) {
			/* skip first child */
			int depth = 0;
			do {
				if (t[i] == '(') ++depth;
				else if (t[i] == ')') --depth;
				++i;
			} while (depth > 0);
		}
	}
}

static void put_block_count(ref_bw *w, int n)
{
	if (n <= 3) ref_bw_put(w, (uint32_t) n - 1, 2);
	else if (n <= 10) { ref_bw_put(w, 3, 2); ref_bw_put(w, (uint32_t) n - 4, 3); }
	else if (n <= 24) { ref_bw_put(w, 3, 2); ref_bw_put(w, 7, 3); ref_bw_put(w, (uint32_t) n - 11, 4); }
	else if (n <= 88) { ref_bw_put(w, 3, 2); ref_bw_put(w, 7, 3); ref_bw_put(w, 14, 4); ref_bw_put(w, (uint32_t) n - 25, 6); }
	else { ref_bw_put(w, 3, 2); ref_bw_put(w, 7, 3); ref_bw_put(w, 15, 4); ref_bw_put(w, (uint32_t) n - 89, 7); }
}

static void put_copy_len(ref_bw *w, unsigned n)
{
	if (n <= 5) ref_bw_put(w, n - 3, 2);
	else if (n <= 10) { ref_bw_put(w, 3, 2); ref_bw_put(w, n - 6, 3); }
	else if (n <= 14) { ref_bw_put(w, 3, 2); ref_bw_put(w, 5, 3); ref_bw_put(w, n - 11, 2); }
	else if (n <= 22) { ref_bw_put(w, 3, 2); ref_bw_put(w, 6, 3); ref_bw_put(w, n - 15, 3); }
	else if (n <= 84) { ref_bw_put(w, 3, 2); ref_bw_put(w, 7, 3); ref_bw_put(w, n - 23, 6); }
	else if (n <= 116) { ref_bw_put(w, 3, 2); ref_bw_put(w, 7, 3); ref_bw_put(w, 62, 6); ref_bw_put(w, n - 85, 5); }
	else { ref_bw_put(w, 3, 2); ref_bw_put(w, 7, 3); ref_bw_put(w, 63, 6); ref_bw_put(w, n - 117, 7); }
}

/* distance base and width of a range at output position p; 0 when the range is unavailable */
static int range_params(int range, size_t p, unsigned *base, int *bits)
{
	switch (range) {
	case 0: *base = 0; *bits = 6; return 1;
	case 1: *base = 64; *bits = 8; return p >= 64;
	case 2: *base = 0; *bits = 6; return 1;
	case 3: *base = 64; *bits = p < 320 ? 8 : 9; return p >= 64;
	case 4: *base = 576; *bits = p < 832 ? 8 : p < 1088 ? 9 : p < 1600 ? 10 : 11; return p >= 576;
	case 5: *base = 2624; *bits = p < 2880 ? 8 : p < 3136 ? 9 : p < 3648 ? 10 : p < 4672 ? 11 : p < 6720 ? 12 : 13; return p >= 2624;
	}
	return 0;
}

static void put_range(ref_bw *w, int range, size_t p)
{
	switch (range) {
	case 0: ref_bw_put(w, 0, 1); if (p >= 576) ref_bw_put(w, 0, 1); if (p >= 64) ref_bw_put(w, 0, 1); break;
	case 1: ref_bw_put(w, 0, 1); if (p >= 576) ref_bw_put(w, 0, 1); ref_bw_put(w, 1, 1); break;
	case 4: ref_bw_put(w, 0, 1); ref_bw_put(w, 1, 1); break;
	case 3: ref_bw_put(w, 1, 1); ref_bw_put(w, 0, 1); break;
	case 2: ref_bw_put(w, 1, 1); if (p >= 64) ref_bw_put(w, 1, 1); if (p >= 2624) ref_bw_put(w, 1, 1); break;
	case 5: ref_bw_put(w, 1, 1); ref_bw_put(w, 1, 1); ref_bw_put(w, 0, 1); break;
	}
}

size_t ref_pm1_serialise(int header, const ref_pm1_item *it, int n, uint8_t *out, size_t cap,
                         uint8_t *expect, size_t ecap, size_t *elen)
{
	ref_bw w;
	ref_mtf mtf;
	size_t p = 0;
	int i, k, after_block = 0;
	const char *tree = REF_PM1_TREES[header & 31];
	ref_bw_init(&w, out, cap);
	ref_mtf_init(&mtf);
	ref_bw_put(&w, (uint32_t) header, 5);
	for (i = 0; i < n; ++i) {
		if (!it[i].copy) {
			if (after_block) return 0;              /* a short block must be followed by a copy */
			if (it[i].nbytes < 1 || it[i].nbytes > 216) return 0;
			ref_bw_put(&w, 1, 1);
			put_block_count(&w, it[i].nbytes);
			for (k = 0; k < it[i].nbytes; ++k) {
				uint8_t b = it[i].bytes[k], bits[32];
				int pos = ref_mtf_pos(&mtf, b), cls, nb, j;
				for (cls = 0; cls < 6; ++cls)
					if (pos >= PM1_BYTE[cls][0] && pos < PM1_BYTE[cls][0] + (1 << PM1_BYTE[cls][1])) break;
				if (tree[0] != '(') { if (cls != 0) return 0; nb = 0; }
				else nb = tree_path(tree, (char) ('a' + cls), bits);
				if (nb < 0) return 0;                    /* class not expressible with this header */
				for (j = 0; j < nb; ++j) ref_bw_put(&w, bits[j], 1);
				ref_bw_put(&w, (uint32_t) (pos - PM1_BYTE[cls][0]), PM1_BYTE[cls][1]);
				if (p < ecap) expect[p] = b;
				++p;
				ref_mtf_touch(&mtf, b);
			}
			after_block = it[i].nbytes != 216;
		} else {
			int range = it[i].range, bits;
			unsigned base;
			if (range < 0) {
				for (range = 0; range < 6; ++range) {
					if ((range < 2) != (it[i].len == 2)) continue;
					if (!range_params(range, p, &base, &bits)) continue;
					if (it[i].dist >= base && it[i].dist < base + (1u << bits)) break;
				}
				if (range >= 6) return 0;
			}
			if (!range_params(range, p, &base, &bits)) return 0;
			if (it[i].dist < base || it[i].dist >= base + (1u << bits)) return 0;
			if (it[i].dist >= p) return 0;
			if (range < 2 ? it[i].len != 2 : (it[i].len < 3 || it[i].len > 244)) return 0;
			if (!after_block) ref_bw_put(&w, 0, 1);
			put_range(&w, range, p);
			if (range >= 2) put_copy_len(&w, it[i].len);
			ref_bw_put(&w, it[i].dist - base, bits);
			for (k = 0; k < (int) it[i].len; ++k) {
				uint8_t b = p - it[i].dist - 1 < ecap ? expect[p - it[i].dist - 1] : 0;
				if (p < ecap) expect[p] = b;
				++p;
				ref_mtf_touch(&mtf, b);
			}
			after_block = 0;
		}
	}
	*elen = p;
	return w.overflow ? 0 : ref_bw_bytes(&w);
}

static int get_block_count(ref_br *r)
{
	int x = (int) ref_br_get(r, 2);
	if (x < 3) return x + 1;
	x = (int) ref_br_get(r, 3);
	if (x < 7) return x + 4;
	x = (int) ref_br_get(r, 4);
	if (x < 14) return x + 11;
	if (x == 14) return (int) ref_br_get(r, 6) + 25;
	return (int) ref_br_get(r, 7) + 89;
}

static int get_copy_len(ref_br *r)
{
	int x = (int) ref_br_get(r, 2);
	if (x < 3) return x + 3;
	x = (int) ref_br_get(r, 3);
	if (x < 5) return x + 6;
	if (x == 5) return (int) ref_br_get(r, 2) + 11;
	if (x == 6) return (int) ref_br_get(r, 3) + 15;
	x = (int) ref_br_get(r, 6);
	if (x < 62) return x + 23;
	if (x == 62) return (int) ref_br_get(r, 5) + 85;
	return (int) ref_br_get(r, 7) + 117;
}

/* past the end of the data the stream continues with zero bits (ref_br delivers zeros) */
static int pm1_copy(ref_br *r, ref_mtf *mtf, uint8_t *out, size_t *o, size_t declared, size_t *p, uint8_t *hist)
{
	int range, bits, len, k;
	unsigned base, dist;
	if (!ref_br_get(r, 1)) {
		if (*p >= 576 && ref_br_get(r, 1)) range = 4;
		else if (*p >= 64) range = (int) ref_br_get(r, 1);
		else range = 0;
	} else {
		if (*p >= 64 && !ref_br_get(r, 1)) range = 3;
		else if (*p >= 2624) range = ref_br_get(r, 1) ? 2 : 5;
		else range = 2;
	}
	len = range < 2 ? 2 : get_copy_len(r);
	range_params(range, *p, &base, &bits);
	dist = base + ref_br_get(r, bits);
	if (dist >= *p) return 0;
	for (k = 0; k < len; ++k) {
		uint8_t b = hist[(*p - dist - 1) & 16383];
		hist[*p & 16383] = b;
		if (*o < declared) out[(*o)++] = b;
		++*p;
		ref_mtf_touch(mtf, b);
	}
	return 1;
}

size_t ref_pm1_decode(const uint8_t *in, size_t n, size_t declared, uint8_t *out, int *err)
{
	static uint8_t hist[16384];
	ref_br r;
	ref_mtf mtf;
	size_t o = 0, p = 0;
	const char *tree;
	*err = 0;
	ref_br_init(&r, in, n);
	ref_mtf_init(&mtf);
	tree = REF_PM1_TREES[ref_br_get(&r, 5)];
	while (o < declared) {
		if (!ref_br_get(&r, 1)) {
			if (!pm1_copy(&r, &mtf, out, &o, declared, &p, hist)) { *err = 1; return o; }
		} else {
			int cnt = get_block_count(&r), k;
			size_t o0 = o;
			for (k = 0; k < cnt; ++k) {
				int cls = tree[0] == '(' ? tree_decode(tree, &r) : 0;
				int pos = PM1_BYTE[cls][0] + (int) ref_br_get(&r, PM1_BYTE[cls][1]);
				uint8_t b = ref_mtf_at(&mtf, pos);
				hist[p & 16383] = b;
				if (o < declared) out[o++] = b;
				++p;
				ref_mtf_touch(&mtf, b);
			}
			if (cnt != 216) {
				if (!pm1_copy(&r, &mtf, out, &o, declared, &p, hist)) { *err = 1; return o0; }
			}
		}
	}
	return o;
}
