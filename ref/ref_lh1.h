/* LZHUF (-lh1-) after Okumura/Yoshizaki LZHUF.C: DESIGN.md A.3 */
#ifndef REF_LH1_H
#define REF_LH1_H
#include "ref_lz.h"

#define LH1_NCHAR 314
#define LH1_T (LH1_NCHAR * 2 - 1)
#define LH1_R (LH1_T - 1)

typedef struct {
	unsigned freq[LH1_T + 1];
	int prnt[LH1_T + LH1_NCHAR];
	int son[LH1_T];
	long rebuilds;
} ref_lh1_tree;

void ref_lh1_start(ref_lh1_tree *t);
void ref_lh1_update(ref_lh1_tree *t, int c);
/* code word of symbol c in the current state (root first); returns length, bits in *code */
int ref_lh1_code(const ref_lh1_tree *t, int c, uint64_t *code_hi, uint64_t *code_lo);
/* write symbol c with the current code and update */
void ref_lh1_put_symbol(ref_lh1_tree *t, ref_bw *w, int c);
void ref_lh1_put_position(ref_bw *w, unsigned offset);
/* symbol of a command: literal b, or 253+len for a copy */
void ref_lh1_put_cmd(ref_lh1_tree *t, ref_bw *w, const ref_cmd *c);
size_t ref_lh1_decode(const uint8_t *in, size_t n, size_t declared, uint8_t *out);
#endif
