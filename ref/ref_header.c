#include "ref_header.h"
#include "ref_crc16.h"
#include <string.h>
#include <stdlib.h>

static uint16_t le16(const uint8_t *p) { return (uint16_t) (p[0] | (p[1] << 8)); }
static uint32_t le32(const uint8_t *p) { return (uint32_t) p[0] | ((uint32_t) p[1] << 8) | ((uint32_t) p[2] << 16) | ((uint32_t) p[3] << 24); }
static uint64_t le64(const uint8_t *p) { return (uint64_t) le32(p) | ((uint64_t) le32(p + 4) << 32); }
static void put16(uint8_t *p, unsigned v) { p[0] = (uint8_t) v; p[1] = (uint8_t) (v >> 8); }
static void put32(uint8_t *p, uint32_t v) { put16(p, v & 0xFFFF); put16(p + 2, v >> 16); }

/* ------------------------------------------------------------------ encoder */

size_t ref_hdr_encode(const ref_hdr *f, uint8_t *out, size_t cap)
{
	size_t szw = f->level == 3 ? 4 : 2, chain = 0, o, base_len, i, extpos[REF_MAX_EXT];
	size_t first = 0;
	int k;
	for (k = 0; k < f->next; ++k) chain += 1 + f->ext[k].len + szw;
	if (f->next) first = 1 + f->ext[0].len + szw;
	if (f->level == 0) {
		base_len = 22 + f->name_len + f->area_len;             /* bytes after the 2 leading ones */
		if (base_len > 255 || 2 + base_len > cap) return 0;
		out[0] = (uint8_t) base_len;
		memcpy(out + 2, f->method, 5);
		put32(out + 7, f->packed); put32(out + 11, f->size); put32(out + 15, f->time_raw);
		out[19] = f->attr; out[20] = 0; out[21] = (uint8_t) f->name_len;
		memcpy(out + 22, f->name, f->name_len);
		put16(out + 22 + f->name_len, f->crc);
		memcpy(out + 24 + f->name_len, f->area, f->area_len);
		{
			unsigned s = 0;
			for (i = 2; i < 2 + base_len; ++i) s += out[i];
			out[1] = (uint8_t) s;
		}
		return 2 + base_len;
	}
	if (f->level == 1) {
		base_len = 25 + f->name_len + f->area_len;
		if (base_len > 255 || 2 + base_len + chain > cap) return 0;
		out[0] = (uint8_t) base_len;
		memcpy(out + 2, f->method, 5);
		put32(out + 7, (uint32_t) (f->packed + chain)); put32(out + 11, f->size); put32(out + 15, f->time_raw);
		out[19] = f->attr; out[20] = 1; out[21] = (uint8_t) f->name_len;
		memcpy(out + 22, f->name, f->name_len);
		put16(out + 22 + f->name_len, f->crc);
		out[24 + f->name_len] = f->os;
		memcpy(out + 25 + f->name_len, f->area, f->area_len);
		put16(out + 25 + f->name_len + f->area_len, (unsigned) first);
		o = 2 + base_len;
	} else if (f->level == 2) {
		size_t total = 26 + chain;
		if (total > 0xFFFF || total + 3 > cap) return 0;
		memcpy(out + 2, f->method, 5);
		put32(out + 7, f->packed); put32(out + 11, f->size); put32(out + 15, f->time_raw);
		out[19] = f->attr; out[20] = 2;
		put16(out + 21, f->crc);
		out[23] = f->os;
		put16(out + 24, (unsigned) first);
		o = 26;
	} else if (f->level == 3) {
		size_t total = 32 + chain;
		if (total + 2 > cap) return 0;
		put16(out, 4);
		memcpy(out + 2, f->method, 5);
		put32(out + 7, f->packed); put32(out + 11, f->size); put32(out + 15, f->time_raw);
		out[19] = f->attr; out[20] = 3;
		put16(out + 21, f->crc);
		out[23] = f->os;
		put32(out + 24, (uint32_t) total);
		put32(out + 28, (uint32_t) first);
		o = 32;
	} else return 0;
	for (k = 0; k < f->next; ++k) {
		size_t nxt = k + 1 < f->next ? 1 + f->ext[k + 1].len + szw : 0;
		out[o++] = f->ext[k].type;
		extpos[k] = o;
		memcpy(out + o, f->ext[k].data, f->ext[k].len);
		o += f->ext[k].len;
		if (szw == 4) put32(out + o, (uint32_t) nxt); else put16(out + o, (unsigned) nxt);
		o += szw;
	}
	if (f->level == 2) {
		size_t total = o;
		/* a total whose low byte is zero is padded by one byte; OS-9/68k writes the length two short */
		if ((total & 0xFF) == 0) out[o++] = 0, ++total;
		put16(out, (unsigned) (f->os == 'K' ? total - 2 : total));
	}
	if (f->level == 1) {
		/* the additive checksum covers the base part only and is itself covered by the common CRC */
		unsigned s = 0;
		for (i = 2; i < 2 + (size_t) out[0]; ++i) s += out[i];
		out[1] = (uint8_t) s;
	}
	/* common CRC: over the whole header with the CRC field(s) zero */
	{
		int any = 0;
		for (k = 0; k < f->next; ++k)
			if (f->ext[k].type == 0 && f->ext[k].len >= 2) { out[extpos[k]] = 0; out[extpos[k] + 1] = 0; any = 1; }
		if (any) {
			uint16_t c = ref_crc16(0, out, o);
			for (k = 0; k < f->next; ++k)
				if (f->ext[k].type == 0 && f->ext[k].len >= 2) put16(out + extpos[k], c);
		}
	}
	return o;
}

/* ------------------------------------------------------------------ parser / integrity */

#define FAIL(msg) do { if (why) *why = (msg); return REF_INT_FAIL; } while (0)

ref_integrity ref_hdr_parse(const uint8_t *b, size_t len, ref_hdr *h, const char **why)
{
	size_t total, p, szw;
	uint32_t nxt;
	int ncommon = 0;
	size_t commonpos[REF_MAX_EXT];
	memset(h, 0, sizeof *h);
	if (why) *why = "";
	if (len < 21) FAIL("fewer than 21 bytes");
	h->level = b[20];
	if (h->level > 3) FAIL("level above 3");
	if (len < 22) FAIL("input ends inside the fixed part");
	memcpy(h->method, b + 2, 5);
	h->stored_packed = le32(b + 7);
	h->size = le32(b + 11);
	h->time_raw = le32(b + 15);
	h->attr = b[19];
	if (h->level <= 1) {
		size_t hs = b[0], nl = b[21], min = h->level == 0 ? 22 : 25;
		unsigned s = 0;
		size_t i;
		total = hs + 2;
		if (hs < min) FAIL("header length below the level minimum");
		if (len < total) FAIL("header extends past the end of input");
		if (min + nl > hs) FAIL("name length points outside the header");
		for (i = 2; i < total; ++i) s += b[i];
		if ((s & 0xFF) != b[1]) FAIL("checksum mismatch");
		h->name = b + 22; h->name_len = nl;
		h->crc = le16(b + 22 + nl);
		if (h->level == 0) {
			h->area = b + 24 + nl; h->area_len = total - 24 - nl;
			h->packed = h->stored_packed;
			h->header_len = total;
			return REF_INT_OK;
		}
		h->os = b[24 + nl];
		h->area = b + 25 + nl; h->area_len = total - 2 - 25 - nl;
		szw = 2;
		nxt = le16(b + total - 2);
		p = total;
		{
			uint32_t remaining = h->stored_packed;
			while (nxt != 0) {
				if (len < p + nxt) FAIL("extended header extends past the end of input");
				if (nxt < 3) FAIL("extended header shorter than its own size field and type");
				if (remaining < nxt) FAIL("extended headers exceed the compressed size field");
				remaining -= nxt;
				if (h->next >= REF_MAX_EXT) return REF_INT_ABSTAIN;
				h->ext[h->next].type = b[p]; h->ext[h->next].data = b + p + 1; h->ext[h->next].len = nxt - 3;
				if (b[p] == 0 && nxt - 3 >= 2) commonpos[ncommon++] = p + 1;
				++h->next;
				p += nxt;
				nxt = le16(b + p - 2);
			}
			h->packed = remaining;
		}
		h->header_len = p;
	} else {
		size_t start;
		if (h->level == 2) {
			total = le16(b);
			if (total < 26) FAIL("header length below the level minimum");
			h->os = b[23];
			if (len >= 24 && h->os == 'K') total += 2;       /* OS-9/68k quirk, see DESIGN.md appendix B */
			if (len < total) FAIL("header extends past the end of input");
			szw = 2; start = 24;
		} else {
			if (le16(b) != 4) FAIL("level 3 word size is not 4");
			if (len < 32) FAIL("input ends inside the fixed part");
			total = le32(b + 24);
			if (total < 32) FAIL("header length below the level minimum");
			if (total > (1u << 20)) FAIL("header length above the 1 MiB cap");
			if (len < total) FAIL("header extends past the end of input");
			h->os = b[23];
			szw = 4; start = 28;
		}
		h->crc = le16(b + 21);
		h->packed = h->stored_packed;
		p = start;
		for (;;) {
			size_t avail;
			if (p + szw > total) break;                       /* no room for another size field: chain ends */
			nxt = szw == 4 ? le32(b + p) : le16(b + p);
			if (nxt == 0) break;
			avail = total - p - szw;
			if (nxt < szw + 1) FAIL("extended header shorter than its own size field and type");
			if (nxt > avail) FAIL("extended header points outside the header");
			if (h->next >= REF_MAX_EXT) return REF_INT_ABSTAIN;
			h->ext[h->next].type = b[p + szw]; h->ext[h->next].data = b + p + szw + 1; h->ext[h->next].len = nxt - szw - 1;
			if (b[p + szw] == 0 && nxt - szw - 1 >= 2) commonpos[ncommon++] = p + szw + 1;
			++h->next;
			p += nxt;
		}
		h->header_len = total;
	}
	if (ncommon > 1) return REF_INT_ABSTAIN;
	if (ncommon == 1) {
		uint8_t *tmp = malloc(h->header_len);
		uint16_t want = le16(b + commonpos[0]), got;
		memcpy(tmp, b, h->header_len);
		tmp[commonpos[0]] = 0; tmp[commonpos[0] + 1] = 0;
		got = ref_crc16(0, tmp, h->header_len);
		free(tmp);
		if (got != want) FAIL("common CRC mismatch");
	}
	return REF_INT_OK;
}

/* ------------------------------------------------------------------ normalise */

static long days_from_civil(long y, unsigned m, unsigned d)
{
	long era;
	unsigned yoe, doy, doe;
	y -= m <= 2;
	era = (y >= 0 ? y : y - 399) / 400;
	yoe = (unsigned) (y - era * 400);
	doy = (153 * (m + (m > 2 ? -3 : 9)) + 2) / 5 + d - 1;
	doe = yoe * 365 + yoe / 4 - yoe / 100 + doy;
	return era * 146097 + (long) doe - 719468;
}

uint32_t ref_dos_to_unix(uint32_t s)
{
	long days;
	if (s == 0) return 0;
	days = days_from_civil(1980 + (long) ((s >> 25) & 0x7F), (s >> 21) & 0xF, (s >> 16) & 0x1F);
	return (uint32_t) (days * 86400 + (long) ((s >> 11) & 0x1F) * 3600 + (long) ((s >> 5) & 0x3F) * 60 + (long) ((s & 0x1F) * 2));
}

static char *cstr(const uint8_t *p, size_t n)
{
	char *s = malloc(n + 3);
	memcpy(s, p, n);
	s[n] = 0; s[n + 1] = 0; s[n + 2] = 0;
	return s;
}

void ref_path_filter(char *path)
{
	/* after one optional leading '/', '/'-terminated components that are empty or "." are dropped, ".." drops
	 * itself and the previous kept component; a trailing piece without '/' is kept verbatim */
	char *in = path, *out;
	char **starts;
	size_t n = strlen(path), nkept = 0;
	if (*in == '/') ++in;
	starts = malloc(sizeof(char *) * (n + 2));
	out = in;
	while (*in) {
		char *slash = strchr(in, '/');
		size_t cl;
		if (!slash) { memmove(out, in, strlen(in) + 1); out += strlen(out); free(starts); return; }
		cl = (size_t) (slash - in);
		if (cl == 0 || (cl == 1 && in[0] == '.')) { /* dropped */ }
		else if (cl == 2 && in[0] == '.' && in[1] == '.') { if (nkept) out = starts[--nkept]; }
		else {
			starts[nkept++] = out;
			memmove(out, in, cl + 1);
			out += cl + 1;
		}
		in = slash + 1;
	}
	*out = 0;
	free(starts);
}

void ref_norm_free(ref_norm *n)
{
	free(n->path); free(n->filename); free(n->target); free(n->user); free(n->group);
	memset(n, 0, sizeof *n);
}

static void split_last_slash(char *full, char **path, int *has_path, char **filename, int *has_filename)
{
	char *sep = strrchr(full, '/');
	if (sep) {
		*filename = cstr((uint8_t *) sep + 1, strlen(sep + 1));
		sep[1] = 0;
		*path = full; *has_path = 1; *has_filename = 1;
	} else {
		*filename = full; *has_filename = 1; *path = NULL; *has_path = 0;
	}
}

static int dos_like(int os) { return os == 0 || os == 'M' || os == 'a' || os == ' ' || os == '2'; }

int ref_hdr_normalise(const ref_hdr *f, ref_norm *n)
{
	int k;
	size_t i;
	memset(n, 0, sizeof *n);
	memcpy(n->method, f->method, 5);
	n->compressed_length = f->packed;
	n->length = f->size;
	n->level = f->level;
	n->crc = f->crc;
	n->timestamp = f->level <= 1 ? ref_dos_to_unix(f->time_raw) : f->time_raw;
	n->os_type = f->level == 0 ? 0 : f->os;
	if (f->level <= 1 && f->name_len > 0) {
		char *full = cstr(f->name, f->name_len);
		for (i = 0; i < f->name_len; ++i) if (full[i] == '\\') full[i] = '/';
		split_last_slash(full, &n->path, &n->has_path, &n->filename, &n->has_filename);
	}
	if (f->level == 0 && f->area_len > 0 && memcmp(f->method, "-pm", 3) != 0) {
		const uint8_t *a = f->area;
		size_t al = f->area_len;
		if ((a[0] == 'U' || a[0] == 'K') && al >= 12 && a[1] == 0) {
			n->os_type = a[0];
			n->timestamp = le32(a + 2);
			n->unix_perms = le16(a + al - 6); n->unix_uid = le16(a + al - 4); n->unix_gid = le16(a + al - 2);
			n->extra_flags |= 1 | 2;
		} else if (a[0] == '9' && al >= 22 && a[9] == 0xCC && a[1] == a[17] && a[2] == a[18]) {
			n->os_type = '9';
			n->os9_perms = le16(a + 1);
			n->extra_flags |= 16;
		}
	}
	for (k = 0; k < f->next; ++k) {
		const uint8_t *d = f->ext[k].data;
		size_t l = f->ext[k].len;
		switch (f->ext[k].type) {
		case 0x00: if (l >= 2) { n->extra_flags |= 4; n->common_crc = le16(d); } break;
		case 0x01: if (l >= 1) {
				free(n->filename);
				n->filename = cstr(d, l); n->has_filename = 1;
				for (i = 0; n->filename[i]; ++i) if (n->filename[i] == '/') n->filename[i] = '_';
			} break;
		case 0x02: if (l >= 1) {
				free(n->path);
				n->path = cstr(d, l); n->has_path = 1;
				if (d[l - 1] != 0xFF) { n->path[l] = (char) 0xFF; ++l; }
				for (i = 0; i < l; ++i) if ((uint8_t) n->path[i] == 0xFF) n->path[i] = '/';
			} break;
		case 0x41: if (l >= 24) { n->extra_flags |= 8; n->win_creation = le64(d); n->win_modification = le64(d + 8); n->win_access = le64(d + 16); } break;
		case 0x50: if (l >= 2) { n->extra_flags |= 1; n->unix_perms = le16(d); } break;
		case 0x51: if (l >= 4) { n->extra_flags |= 2; n->unix_gid = le16(d); n->unix_uid = le16(d + 2); } break;
		case 0x52: if (l >= 1) { free(n->group); n->group = cstr(d, l); n->has_group = 1; } break;
		case 0x53: if (l >= 1) { free(n->user); n->user = cstr(d, l); n->has_user = 1; } break;
		case 0x54: if (l >= 4) n->timestamp = le32(d); break;
		case 0xCC: if (l >= 12) { n->os9_perms = le16(d + 7); n->extra_flags |= 16; } break;
		default: break;
		}
	}
	/* Amiga directories */
	if (n->os_type == 'A' && !memcmp(n->method, "-lh0-", 5) && n->length == 0 && !n->has_filename) memcpy(n->method, "-lhd-", 5);
	if (memcmp(n->method, "-lhd-", 5) != 0) {
		if (!n->has_filename) return 0;
	} else if ((n->extra_flags & 1) && (n->has_path || n->has_filename) && (n->unix_perms & 0170000) == 0120000) {
		size_t pl = n->has_path ? strlen(n->path) : 0, fl = n->has_filename ? strlen(n->filename) : 0;
		char *full = malloc(pl + fl + 3), *bar;
		memcpy(full, n->has_path ? n->path : "", pl);
		memcpy(full + pl, n->has_filename ? n->filename : "", fl);
		full[pl + fl] = 0; full[pl + fl + 1] = 0;
		bar = strchr(full, '|');
		if (!bar) { free(full); return 0; }
		n->target = cstr((uint8_t *) bar + 1, strlen(bar + 1)); n->has_target = 1;
		*bar = 0;
		free(n->path); free(n->filename); n->path = n->filename = NULL;
		split_last_slash(full, &n->path, &n->has_path, &n->filename, &n->has_filename);
	} else {
		if (!n->has_path) return 0;
	}
	if (dos_like(n->os_type)) {
		int lower = 0;
		if (n->has_path) for (i = 0; n->path[i]; ++i) if (n->path[i] >= 'a' && n->path[i] <= 'z') lower = 1;
		if (n->has_filename) for (i = 0; n->filename[i]; ++i) if (n->filename[i] >= 'a' && n->filename[i] <= 'z') lower = 1;
		if (!lower) {
			if (n->has_path) for (i = 0; n->path[i]; ++i) if (n->path[i] >= 'A' && n->path[i] <= 'Z') n->path[i] += 32;
			if (n->has_filename) for (i = 0; n->filename[i]; ++i) if (n->filename[i] >= 'A' && n->filename[i] <= 'Z') n->filename[i] += 32;
		}
	}
	if (n->has_path) ref_path_filter(n->path);
	if (n->os_type == 'K' && (n->extra_flags & 1)) { n->os9_perms = n->unix_perms; n->extra_flags |= 16; }
	if (n->extra_flags & 16) {
		unsigned p = n->os9_perms;
		unsigned or_ = p & 1, ow = (p >> 1) & 1, oe = (p >> 2) & 1, pr = (p >> 3) & 1, pw = (p >> 4) & 1, pe = (p >> 5) & 1, d = (p >> 7) & 1;
		n->extra_flags |= 1;
		n->unix_perms = (d << 14) | (or_ << 8) | (ow << 7) | (oe << 6) | (pr << 5) | (pw << 4) | (pe << 3) | (pr << 2) | (pw << 1) | pe;
	}
	if (f->level == 1 && n->os_type == ' ' && !memcmp(n->method, "-lh7-", 5)) n->method[2] = 'k';
	return 1;
}
