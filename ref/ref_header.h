/* Reference model of LHA file headers (levels 0-3): DESIGN.md appendix B.  Independent of lhasa's code:
 * an encoder from a field record, a raw parser with the integrity rules, and normalise() giving the fields
 * a reader must hand to its caller.  Parser + normalise are bound to the recorded header dumps of the
 * corpus (test/output, the -hdr.txt files) by ./check selftest. */
#ifndef REF_HEADER_H
#define REF_HEADER_H
#include <stdint.h>
#include <stddef.h>

#define REF_MAX_EXT 24

typedef struct {
	uint8_t type;
	const uint8_t *data;
	size_t len;
} ref_ext;

typedef struct {
	int level;
	uint8_t method[5];
	uint32_t packed;          /* member data bytes that follow the header (level 1: without the extended headers) */
	uint32_t size;
	uint32_t time_raw;        /* level 0/1: MS-DOS stamp; level 2/3: Unix time */
	uint8_t attr;
	uint16_t crc;
	uint8_t os;               /* level >= 1 */
	const uint8_t *name; size_t name_len;    /* level 0/1 in-header name */
	const uint8_t *area; size_t area_len;    /* level 0: extended area; level 1: bytes between OS and first size */
	int next;
	ref_ext ext[REF_MAX_EXT];
	/* filled by the parser */
	size_t header_len;        /* bytes of the complete header incl. extended headers */
	uint32_t stored_packed;   /* packed field as stored */
} ref_hdr;

/* encode; fills checksum / sizes / common CRC (every type-0 extended header with >= 2 data bytes receives the CRC).
 * Returns total length or 0. */
size_t ref_hdr_encode(const ref_hdr *f, uint8_t *out, size_t cap);

typedef enum { REF_INT_OK = 0, REF_INT_FAIL = 1, REF_INT_ABSTAIN = 2, REF_INT_NOTHEADER = 3 } ref_integrity;

/* parse one header at buf[0..len): integrity rules of the level.  On REF_INT_OK *h describes the header
 * (pointers into buf).  why (optional) receives a short reason. */
ref_integrity ref_hdr_parse(const uint8_t *buf, size_t len, ref_hdr *h, const char **why);

typedef struct {
	int has_path, has_filename, has_target;
	char *path, *filename, *target;       /* malloc'ed, NUL terminated (C-string view, as a reader returns them) */
	char method[6];
	uint32_t compressed_length, length;
	int level;
	int os_type;
	uint16_t crc;
	uint32_t timestamp;
	unsigned extra_flags;                 /* 1 perms, 2 uid/gid, 4 common crc, 8 windows stamps, 16 os9 perms */
	unsigned unix_perms, unix_uid, unix_gid, os9_perms;
	int has_user, has_group;
	char *user, *group;
	uint16_t common_crc;
	uint64_t win_creation, win_modification, win_access;
} ref_norm;

/* Returns 1 when the record denotes an entry a reader must return (0: a file entry without name, a directory
 * without path, a link entry without '|').  tz_offset: seconds east of UTC used for MS-DOS stamps
 * (the checks run with TZ=UTC: 0). */
int ref_hdr_normalise(const ref_hdr *f, ref_norm *n);
void ref_norm_free(ref_norm *n);

/* the path filter of step 7 on a NUL-terminated string, in place */
void ref_path_filter(char *path);
uint32_t ref_dos_to_unix(uint32_t stamp);
#endif
