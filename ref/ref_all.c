#include "ref_all.h"
#include <string.h>
#if 1
#include "ref_lh1.h"
#endif
#if 1
#include "ref_pm.h"
#endif

long ref_decode(const char *method, const uint8_t *in, size_t n, size_t declared, uint8_t *out, int *err)
{
	const ref_lh_params *m;
	*err = 0;
	if (!strcmp(method, "-lh0-") || !strcmp(method, "-lz4-") || !strcmp(method, "-pm0-")) {
		size_t k = n < declared ? n : declared;
		memcpy(out, in, k);
		return (long) k;
	}
	if (!strcmp(method, "-lz5-")) return (long) ref_lz5_decode(in, n, declared, out);
	if (!strcmp(method, "-lzs-")) return (long) ref_lzs_decode(in, n, declared, out);
	m = ref_lh_params_for(method);
	if (m) return (long) ref_lh_decode(m, in, n, declared, out, err);
#if 1
	if (!strcmp(method, "-lh1-")) return (long) ref_lh1_decode(in, n, declared, out);
#endif
#if 1
	if (!strcmp(method, "-pm2-")) return (long) ref_pm2_decode(in, n, declared, out, err);
	if (!strcmp(method, "-pm1-")) return (long) ref_pm1_decode(in, n, declared, out, err);
#endif
	return -1;
}
