#include "ref_lz.h"
#include <string.h>

void ref_bw_init(ref_bw *w, uint8_t *buf, size_t cap)
{
	w->p = buf; w->cap = cap; w->nbits = 0; w->overflow = 0;
	memset(buf, 0, cap);
}

void ref_bw_put(ref_bw *w, uint32_t value, int nbits)
{
	int i;
	for (i = nbits - 1; i >= 0; --i) {
		if (w->nbits / 8 >= w->cap) { w->overflow = 1; return; }
		if ((value >> i) & 1) w->p[w->nbits / 8] |= (uint8_t) (0x80 >> (w->nbits % 8));
		++w->nbits;
	}
}

size_t ref_bw_bytes(const ref_bw *w) { return (w->nbits + 7) / 8; }

void ref_br_init(ref_br *r, const uint8_t *buf, size_t nbytes)
{
	r->p = buf; r->nbits_total = nbytes * 8; r->pos = 0; r->overrun = 0;
}

uint32_t ref_br_get(ref_br *r, int nbits)
{
	uint32_t v = 0;
	int i;
	for (i = 0; i < nbits; ++i) {
		unsigned bit = 0;
		if (r->pos < r->nbits_total) {
			bit = (r->p[r->pos / 8] >> (7 - r->pos % 8)) & 1;
			++r->pos;
		} else {
			++r->overrun;
		}
		v = (v << 1) | bit;
	}
	return v;
}

size_t ref_lz77_expand(const ref_cmd *c, int n, uint8_t fill, uint8_t *out, size_t cap)
{
	size_t o = 0;
	int i;
	unsigned k;
	for (i = 0; i < n; ++i) {
		if (!c[i].copy) {
			if (o < cap) out[o] = (uint8_t) c[i].value;
			++o;
			if (o >= cap) return cap;
		} else {
			size_t dist = (size_t) c[i].value + 1;
			for (k = 0; k < c[i].len; ++k) {
				uint8_t b = o >= dist ? out[o - dist] : fill;
				if (o < cap) out[o] = b;
				++o;
				if (o >= cap) return cap;
			}
		}
	}
	return o;
}

uint8_t ref_lz5_initial(unsigned pos)
{
	/* 13 copies of each byte value ascending; 0..255; 255..0; 128 zeros; 110 spaces; 18 zeros */
	if (pos < 13 * 256) return (uint8_t) (pos / 13);
	pos -= 13 * 256;
	if (pos < 256) return (uint8_t) pos;
	pos -= 256;
	if (pos < 256) return (uint8_t) (255 - pos);
	pos -= 256;
	if (pos < 128) return 0;
	pos -= 128;
	if (pos < 110) return 0x20;
	return 0;
}

size_t ref_larc_expand(const ref_cmd *c, int n, int variant, uint8_t *out, size_t cap)
{
	uint8_t ring[4096];
	unsigned R = variant == 's' ? 2048 : 4096;
	unsigned w = variant == 's' ? 2048 - 17 : 4096 - 18;
	unsigned i, k;
	size_t o = 0;
	int j;
	for (i = 0; i < R; ++i) ring[i] = variant == 's' ? 0x20 : ref_lz5_initial(i);
	for (j = 0; j < n; ++j) {
		if (!c[j].copy) {
			if (o < cap) out[o] = (uint8_t) c[j].value;
			++o;
			ring[w] = (uint8_t) c[j].value;
			w = (w + 1) % R;
		} else {
			for (k = 0; k < c[j].len; ++k) {
				uint8_t b = ring[(c[j].value + k) % R];
				if (o < cap) out[o] = b;
				++o;
				ring[w] = b;
				w = (w + 1) % R;
			}
		}
		if (o >= cap) return cap;
	}
	return o;
}

size_t ref_lz5_serialise(const ref_cmd *c, int n, uint8_t *out, size_t cap)
{
	size_t o = 0, flagpos = 0;
	int i;
	for (i = 0; i < n; ++i) {
		if (i % 8 == 0) {
			if (o >= cap) return 0;
			flagpos = o;
			out[o++] = 0;
		}
		if (!c[i].copy) {
			if (o + 1 > cap) return 0;
			out[flagpos] |= (uint8_t) (1 << (i % 8));
			out[o++] = (uint8_t) c[i].value;
		} else {
			if (o + 2 > cap) return 0;
			out[o++] = (uint8_t) (c[i].value & 0xFF);
			out[o++] = (uint8_t) (((c[i].value >> 4) & 0xF0) | ((c[i].len - 3) & 0x0F));
		}
	}
	return o;
}

size_t ref_lzs_serialise(const ref_cmd *c, int n, uint8_t *out, size_t cap)
{
	ref_bw w;
	int i;
	ref_bw_init(&w, out, cap);
	for (i = 0; i < n; ++i) {
		if (!c[i].copy) {
			ref_bw_put(&w, 1, 1);
			ref_bw_put(&w, c[i].value, 8);
		} else {
			ref_bw_put(&w, 0, 1);
			ref_bw_put(&w, c[i].value, 11);
			ref_bw_put(&w, c[i].len - 2, 4);
		}
	}
	return w.overflow ? 0 : ref_bw_bytes(&w);
}

size_t ref_lz5_decode(const uint8_t *in, size_t n, size_t declared, uint8_t *out)
{
	uint8_t ring[4096];
	unsigned w = 4096 - 18, i, k;
	size_t ip = 0, o = 0;
	for (i = 0; i < 4096; ++i) ring[i] = ref_lz5_initial(i);
	while (ip < n && o < declared) {
		unsigned flags = in[ip++];
		int bit;
		for (bit = 0; bit < 8 && o < declared; ++bit) {
			if (flags & (1u << bit)) {
				if (ip >= n) return o;
				out[o++] = ring[w] = in[ip++];
				w = (w + 1) % 4096;
			} else {
				unsigned pos, len;
				if (ip + 2 > n) return o;
				pos = in[ip] | ((in[ip + 1] & 0xF0u) << 4);
				len = (in[ip + 1] & 0x0F) + 3;
				ip += 2;
				for (k = 0; k < len && o < declared; ++k) {
					uint8_t b = ring[(pos + k) % 4096];
					out[o++] = ring[w] = b;
					w = (w + 1) % 4096;
				}
			}
		}
	}
	return o;
}

size_t ref_lzs_decode(const uint8_t *in, size_t n, size_t declared, uint8_t *out)
{
	uint8_t ring[2048];
	unsigned w = 2048 - 17, k;
	size_t o = 0;
	ref_br r;
	memset(ring, 0x20, sizeof ring);
	ref_br_init(&r, in, n);
	while (o < declared) {
		if (r.pos + 1 > r.nbits_total) break;
		if (ref_br_get(&r, 1)) {
			unsigned b;
			if (r.pos + 8 > r.nbits_total) break;
			b = ref_br_get(&r, 8);
			out[o++] = ring[w] = (uint8_t) b;
			w = (w + 1) % 2048;
		} else {
			unsigned pos, len;
			if (r.pos + 15 > r.nbits_total) break;
			pos = ref_br_get(&r, 11);
			len = ref_br_get(&r, 4) + 2;
			for (k = 0; k < len && o < declared; ++k) {
				uint8_t b = ring[(pos + k) % 2048];
				out[o++] = ring[w] = b;
				w = (w + 1) % 2048;
			}
		}
	}
	return o;
}
