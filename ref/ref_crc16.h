#ifndef REF_CRC16_H
#define REF_CRC16_H
#include <stdint.h>
#include <stddef.h>
/* CRC-16/ARC by its definition: reflected polynomial 0xA001, init 0, no final xor; one bit at a time. */
uint16_t ref_crc16_step(uint16_t crc, uint8_t b);
uint16_t ref_crc16(uint16_t crc, const uint8_t *p, size_t n);
#endif
