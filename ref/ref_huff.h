#ifndef REF_HUFF_H
#define REF_HUFF_H
#include <stdint.h>
#include "ref_lz.h"

/* Canonical prefix code: words assigned in order of (length, symbol index), first word all zeros,
 * next = (previous + 1) << (length difference).  Returns 1 when the lengths are complete (Kraft sum 1). */
int ref_canon_codes(const uint8_t *len, int n, uint32_t *code);

/* decode one symbol of a canonical code from a bit reader; -1 when no word matches within 31 bits */
int ref_canon_decode(ref_br *r, const uint8_t *len, const uint32_t *code, int n);

/* table-driven variant of the same thing for large alphabets */
typedef struct { uint32_t first[33]; int count[33]; int offset[33]; int sym[520]; } ref_canon_tab;
void ref_canon_tab_build(ref_canon_tab *t, const uint8_t *len, int n);
int ref_canon_tab_decode(ref_br *r, const ref_canon_tab *t);

/* balanced complete lengths for k>=2 symbols: 2^L-k symbols of length L-1, the rest L */
void ref_balanced_lengths(int k, uint8_t *len);

/* enumerate all complete length vectors (each 1..maxlen) over k symbols; calls fn for each */
typedef void (*ref_kraft_fn)(const uint8_t *len, int k, void *u);
long ref_kraft_enum(int k, int maxlen, ref_kraft_fn fn, void *u);
#endif
