#include "ref_huff.h"
#include <string.h>

int ref_canon_codes(const uint8_t *len, int n, uint32_t *code)
{
	int l, i;
	uint64_t next = 0, kraft = 0;
	int prev = 0;
	for (l = 1; l <= 32; ++l) {
		for (i = 0; i < n; ++i) {
			if (len[i] != l) continue;
			if (prev) next = (next + 1) << (l - prev);
			else next = 0;
			prev = l;
			code[i] = (uint32_t) next;
			kraft += 1ULL << (32 - l);
		}
	}
	return kraft == (1ULL << 32);
}

int ref_canon_decode(ref_br *r, const uint8_t *len, const uint32_t *code, int n)
{
	uint32_t acc = 0;
	int l, i;
	for (l = 1; l <= 31; ++l) {
		acc = (acc << 1) | ref_br_get(r, 1);
		for (i = 0; i < n; ++i)
			if (len[i] == l && code[i] == acc) return i;
	}
	return -1;
}

void ref_balanced_lengths(int k, uint8_t *len)
{
	int L = 0, i, shorter;
	while ((1 << L) < k) ++L;
	shorter = (1 << L) - k;
	for (i = 0; i < k; ++i) len[i] = (uint8_t) (i < shorter ? L - 1 : L);
}

static long kraft_rec(uint8_t *len, int i, int k, int maxlen, uint32_t remaining, ref_kraft_fn fn, void *u)
{
	/* remaining in units of 2^-maxlen */
	long cnt = 0;
	int l;
	if (i == k) {
		if (remaining == 0) { fn(len, k, u); return 1; }
		return 0;
	}
	for (l = 1; l <= maxlen; ++l) {
		uint32_t w = 1u << (maxlen - l);
		if (w > remaining) continue;
		/* the other k-i-1 symbols need at least one unit each and at most half each */
		if (remaining - w < (uint32_t) (k - i - 1)) continue;
		if ((uint64_t) (remaining - w) > (uint64_t) (k - i - 1) << (maxlen - 1)) continue;
		len[i] = (uint8_t) l;
		cnt += kraft_rec(len, i + 1, k, maxlen, remaining - w, fn, u);
	}
	return cnt;
}

long ref_kraft_enum(int k, int maxlen, ref_kraft_fn fn, void *u)
{
	uint8_t len[64];
	if (k < 2 || k > 64) return 0;
	return kraft_rec(len, 0, k, maxlen, 1u << maxlen, fn, u);
}

void ref_canon_tab_build(ref_canon_tab *t, const uint8_t *len, int n)
{
	int l, i, k = 0, prev = 0;
	uint64_t next = 0;
	memset(t, 0, sizeof *t);
	for (l = 1; l <= 32; ++l) {
		t->offset[l] = k;
		for (i = 0; i < n; ++i) {
			if (len[i] != l) continue;
			if (prev) next = (next + 1) << (l - prev);
			else next = 0;
			prev = l;
			if (t->count[l] == 0) t->first[l] = (uint32_t) next;
			++t->count[l];
			if (k < 520) t->sym[k++] = i;
		}
	}
}

int ref_canon_tab_decode(ref_br *r, const ref_canon_tab *t)
{
	uint32_t acc = 0;
	int l;
	for (l = 1; l <= 31; ++l) {
		acc = (acc << 1) | ref_br_get(r, 1);
		if (t->count[l] && acc >= t->first[l] && acc - t->first[l] < (uint32_t) t->count[l])
			return t->sym[t->offset[l] + (int) (acc - t->first[l])];
	}
	return -1;
}
