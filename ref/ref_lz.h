/* Reference models of the compression formats (DESIGN.md appendix A).  Independent re-statements of
 * the published formats; validated against the recorded corpus by ./check selftest, not against lhasa. */
#ifndef REF_LZ_H
#define REF_LZ_H
#include <stdint.h>
#include <stddef.h>

typedef struct {
	int copy;          /* 0 literal, 1 copy */
	unsigned value;    /* literal byte, or distance-1 ("offset": copy reads offset+1 back) / absolute position (LArc) */
	unsigned len;
	int variant;       /* LHARK: 1 = express length 514 with symbol 288 */
} ref_cmd;

/* MSB-first bit writer */
typedef struct {
	uint8_t *p;
	size_t cap;      /* bytes */
	size_t nbits;
	int overflow;
} ref_bw;
void ref_bw_init(ref_bw *w, uint8_t *buf, size_t cap);
void ref_bw_put(ref_bw *w, uint32_t value, int nbits);
size_t ref_bw_bytes(const ref_bw *w);    /* bytes used, last one zero padded */

/* MSB-first bit reader; past the end it delivers 'eof_bit' and counts overrun bits */
typedef struct {
	const uint8_t *p;
	size_t nbits_total;
	size_t pos;
	size_t overrun;
} ref_br;
void ref_br_init(ref_br *r, const uint8_t *buf, size_t nbytes);
uint32_t ref_br_get(ref_br *r, int nbits);

/* LZ77 over a sliding window pre-filled with 'fill': copy(value, len) reads value+1 bytes back,
 * byte by byte.  Returns number of bytes produced (stops at cap). */
size_t ref_lz77_expand(const ref_cmd *c, int n, uint8_t fill, uint8_t *out, size_t cap);

/* LArc: absolute ring positions. variant 's' (-lzs-: 2 KiB of spaces, write position 2048-17) or
 * '5' (-lz5-: 4 KiB fixed fill pattern, write position 4096-18) */
uint8_t ref_lz5_initial(unsigned pos);
size_t ref_larc_expand(const ref_cmd *c, int n, int variant, uint8_t *out, size_t cap);
size_t ref_lz5_serialise(const ref_cmd *c, int n, uint8_t *out, size_t cap);
size_t ref_lzs_serialise(const ref_cmd *c, int n, uint8_t *out, size_t cap);
/* straightforward decoders: produce at most 'declared' bytes; return produced */
size_t ref_lz5_decode(const uint8_t *in, size_t n, size_t declared, uint8_t *out);
size_t ref_lzs_decode(const uint8_t *in, size_t n, size_t declared, uint8_t *out);

#endif
