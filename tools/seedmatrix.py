#!/usr/bin/env python3
"""Run the quick check of each seeded change's property against it (scratch copy) and record the result in meta.json;
prints the seed -> detecting site table (DESIGN.md 8.6)."""
import os, sys, json, subprocess, re
root = "/verif/seeded"
rows = []
args = sys.argv[1:]
jobs = 1
if args and args[0].startswith("-j"):
    jobs = int(args[0][2:] or 2)
    args = args[1:]
ids = args or sorted(d for d in os.listdir(root) if re.match(r"^C\d+-\d+$", d))


def one(sid):
        d = os.path.join(root, sid)
        meta = json.load(open(d + "/meta.json"))
        pid = sid.split("-")[0]
        r = subprocess.run(["/verif/tools/mutcheck.py", d + "/patch.diff", pid], stdout=subprocess.PIPE, stderr=subprocess.STDOUT)
        out = r.stdout.decode(errors="replace")
        sites = re.findall(r"site=(\S+)", out)
        meta["detected_by_quick_check"] = r.returncode == 0
        meta["detecting_sites"] = sorted(set(sites))[:6]
        notes = os.path.join(d, "notes.md")
        if os.path.exists(notes):
            txt = open(notes, errors="replace").read()
            m = re.search(r"(?is)(trigger|what.*needed|manifest)[^\n]*\n(.{0,900})", txt)
            meta["needs_to_manifest"] = (m.group(2) if m else txt[:900]).strip()
            meta["notes_file"] = "notes.md (written by the sub-agent that proposed the change)"
        meta["what_was_run"] = "tools/verify_seed.py %s (scratch worktree: git apply, make, make check, demo with/without); tools/mutcheck.py seeded/%s/patch.diff %s" % (sid, sid, pid)
        json.dump(meta, open(d + "/meta.json", "w"), indent=1)
        row = (sid, "detected" if r.returncode == 0 else "MISSED", ", ".join(sorted(set(sites))[:3]))
        print("| %s | %s | %s |" % row, flush=True)
        return row


from multiprocessing.pool import ThreadPool
rows = ThreadPool(jobs).map(one, ids)
print("missed:", [r[0] for r in rows if r[1] != "detected"])
