#!/opt/veriftools/pyvenv/bin/python
import json, sys, glob, jsonschema
man = json.load(open('/verif/MANIFEST.json'))
jsonschema.validate(man, json.load(open('/root/.vp/MANIFEST.schema.json')))
print("MANIFEST ok:", len(man['checks']), "checks")
sch = json.load(open('/root/.vp/EVIDENCE.schema.json'))
for f in sorted(glob.glob('/verif/evidence/*.json')):
    try:
        jsonschema.validate(json.load(open(f)), sch); print("ok", f)
    except Exception as e:
        print("INVALID", f, str(e)[:300])
