#!/usr/bin/env python3
"""Print the prompt given to a fresh sub-agent that is asked for property-breaking changes.
The agent sees only the property text and its own scratch worktree."""
import json, sys
pid = sys.argv[1]
wt = sys.argv[2]
for l in open('/verif/properties.jsonl'):
    p = json.loads(l)
    if p['id'] == pid:
        break
else:
    raise SystemExit("no such property")
print(f"""You are helping to evaluate a verification framework for the open-source C project fragglet/lhasa (a library and CLI that parses and decompresses LHA/LZH archives). Your job: write realistic *defect-introducing* changes ("seeded bugs") against a stated semantic property, so that we can later see whether independent machinery detects them. You work ONLY inside your own scratch git worktree of the project: {wt}  (it is already configured; `make -j16` builds it in ~15 s and `make -j16 check` runs the project's own test suite in ~1-2 minutes; the CLI test binary is src/test-lha, the normal one src/lha; the static test library is lib/liblhasatest.a, public headers are in lib/public). Do NOT read or touch /verif or /repo, and do not look at any other /tmp/wt-* directory. There is no network.

The property (id {pid}): "{p['title']}"

Statement: {p['statement']}

Quantification: {p['quantifier']['text']}

Source files where the mechanisms live: {', '.join(p['anchors']['files'])}

What to produce: TWO independent changes to the project's source (lib/ or src/; not tests), each of which
  1. breaks the property above (for some input / call history / configuration the property quantifies over),
  2. still compiles without new warnings and still passes the project's whole existing test suite (`make -j16 check` must report 10 PASS, 0 FAIL - run it and check; this matters, a change that fails the suite is useless),
  3. needs something *specific* to manifest - a particular unusual input shape, a multi-step sequence of API calls, a boundary value, a particular interleaving of operations, a fault at a particular point, or two cooperating sites that each look fine alone - NOT something that ordinary use or the first obvious test would expose at once. Think of the kind of regression a plausible refactoring, "optimisation" or off-by-one slip by a maintainer would introduce (e.g. a boundary comparison changed, a scratch buffer hoisted to file scope, a counter updated before a clamp, a tie-break order changed, a check dropped on one of several paths). Keep each change small (a few lines). The two changes should hit different mechanisms/sites.
  4. comes with a demonstration: a small C program (linking lib/liblhasatest.a or lib/.libs/liblhasa.a, including headers from lib/public or lib/) or a shell script using src/lha, which exits 0 on the unchanged tree and exits non-zero (or prints FAIL) with the change applied, showing concretely that the property is violated (not merely that behaviour differs: the demonstration must check what the property promises).

For each change k in {{1,2}} write, inside {wt}/seedout/{pid}-k/ :
  - patch.diff : `git diff` of the change alone against the worktree's HEAD (apply-able with `git apply` from the repository root; do not include seedout/ or build products),
  - demo.c or demo.sh (plus any tiny input files it needs, which it should preferably generate itself) and a run.sh that builds and runs the demonstration from the repository root given as $1 (default: the worktree), exiting 0 = property holds, non-zero = violated,
  - notes.md : which clause of the property is broken, what exactly is needed for it to manifest, why the test suite does not notice, and the output of your runs (suite result with the change; demo result with and without the change).
Work on one change at a time: apply it, build, run `make -j16 check`, run the demo; then `git checkout -- lib src` to revert, rebuild, and run the demo again to confirm it passes on the unchanged tree. Leave the worktree's tracked files UNCHANGED (reverted) when you finish; only seedout/ remains. Your final message should list, for each change, a 2-3 line summary (site, trigger, suite result, demo results).""")
