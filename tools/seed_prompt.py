#!/usr/bin/env python3
"""Print the prompt given to a fresh sub-agent that is asked for property-breaking changes.
The agent sees only the property text and its own scratch worktree."""
import json, sys
pid = sys.argv[1]
wt = sys.argv[2]
round2 = len(sys.argv) > 3
for l in open('/verif/properties.jsonl'):
    p = json.loads(l)
    if p['id'] == pid:
        break
else:
    raise SystemExit("no such property")
AVOID = {
 "C01": "the unary code-length extension loop in read_length_value; the fill_bytes computation in peek_bits",
 "C02": "the NUM_TREE_NODES-1 bound in increment_node_freq; the group reassignment loop bound in reconstruct_tree",
 "C03": "a self-overlap shortcut in lz5 output_block; the order of memset/ringbuf_pos in lzs init",
 "C04": "need_offset_tree assignment order in pm2 read_code_tree; the 3648 threshold in pm1 read_copy_command",
 "C05": "sign extension of the DOS year in decode_ftime; the else-if in fix_msdos_allcaps",
 "C06": "a cached prefix length for the directory stack in lha_reader.c; the 128-byte round-up in is_macbinary_header",
 "C07": "stream_pos += buf_len in lha_decoder_read; an early return for length==0 in do_decode",
 "C08": "MIN_EXT_HEADER_LEN for level 3 in decode_extended_headers; parse_symlink returning 1 without a '|'",
 "C09": "signed start position in copy_from_history; TreeElement widened to 16 bits in pm2",
 "C10": "extract_directory falling through when mkdir fails; fopen instead of lha_arch_fopen for the placeholder",
 "C11": "an early return in collapse_path; moving split_header_filename out of process_level0_path",
 "C12": "skipping the common CRC check for level 1; available_length accounting in decode_extended_headers",
 "C13": "the n==0 exit in read_macbinary_header; a heap scratch buffer in file_source_skip_fallback",
 "C14": "lha_decoder_monitor announcing only the current block; decoder_failed set when filled==0",
 "C15": "removing the CURR_FILE_NORMAL guard in open_decoder; a static buffer in do_decode",
 "C16": "LEADIN_BUFFER_LEN raised to 32; the scan loop bound in skip_sfx",
 "C17": "a 16-bit length counter; an odd-address peel without a length check",
 "C18": "the 0x7f boundary in safe_output; plain printf for suffixes in extract_archive_dry_run",
 "C19": "the six-month comparison in output_timestamp; backtracking in match_glob",
 "C20": "close_decoder freeing the inner decoder only when the outer exists; fclose skipped when do_decode fails",
}
AVOID3 = {
 "C01": "build_tree 16-bit codes; LHARK code 288",
 "C02": "a 16-bit limit in read_code; bytes-requested vs bytes-returned in peek_bits",
 "C03": "lzs copy at the write position; lz5 ring hoisted to file scope",
 "C04": "pm1 zero-fill supplied only once; pm2 offset 8191 rejected",
 "C05": "8-bit total header length; group decoder freeing the user name",
 "C06": "match_glob star not matching the empty run; q0 not forcing overwrite",
 "C07": "test_archived_file_crc returning 1 under quiet; read_compressed not returning 0 on a failed read",
 "C08": "stale curr_file after a failed skip in lha_basic_reader_next_file; malloc(data_len+1) in the path decoder",
 "C09": "OUTPUT_BUFFER_SIZE shrunk in lh_new_decoder; code-table count clamp",
 "C10": "fake-dir metadata applied to the header path; is_dangerous_symlink path_start",
 "C11": "'/'->'_' rewrite stopping at '|'; collapse_path skipped for symlinks",
 "C12": "level-1 path_len bound; directory accepted with a filename only",
 "C13": "close_decoder early return; skip loop result < 0",
 "C14": "direct-decode fast path ignoring the clamp; CRC over buf_len",
 "C15": "strlen-1 prefix compare in end_of_top_dir; file_header_path_len else-if",
 "C16": "512-byte block skip in file_source_skip_fallback; empty_leadin memmove guard",
 "C17": "lazily built two-byte table; word-wise zero skip",
 "C18": "method scrub of bytes 1..3 only; owner names printed with printf",
 "C19": "integer overflow in compression_percent; 0x7f in safe_output",
 "C20": "add_ref before a failing placeholder fopen; path=filename before strdup in split_header_filename",
}
AVOID4 = {
 "C01": "zero-run clamp to n-1 in read_code_table; (any change in) read_length_value",
 "C02": "init_groups fill bound; 8-bit group id in make_group_leader",
 "C03": "(lz5/lzs ring initialisation and copy positions generally)",
 "C04": "pm2 offset_lengths hoisted to static; bit reader refill size hoisted out of the loop",
 "C05": "collapse_path prefix test for '..'; timestamp decoders",
 "C06": "(option parsing of q; MacBinary length rounding)",
 "C07": "open_decoder early return when a decoder exists; exit status as a failure count",
 "C08": "(ext header length checks)",
 "C09": "(history ring indices in pm2/lh_new)",
 "C10": "bare q swallowing the next option letter; deferred symlink ordering",
 "C11": "missing final separator appended after collapse_path; leading '/' skipped twice",
 "C12": "extra_flags clobbered by the OS-9 decoder; basic reader eof flag",
 "C13": "level-3 length cap split over two sites; quadratic all-caps folding",
 "C14": "CRC updated at decode time; progress check before stream_pos update",
 "C15": "LEADIN_BUFFER_LEN vs skip; deferred symlink list pop order",
 "C16": "static seekability probe; skip_sfx byte budget",
 "C17": "block loop dropping the last full block; unrolled tail switch",
 "C18": "safe_printf stack buffer length; plain-name fast path in list.c",
 "C19": "safe_printf fit test; type letter from mode bits",
 "C20": "realloc result published late in extend_raw_data; path decoder not freeing the old path",
}
AVOID5 = {
 "C01": "copy_from_history range guard; ring pre-fill of half the ring (both -lk7- only)",
 "C02": "ring pre-fill of the last 60 bytes; parent pointer of the last tree slot in init_tree",
 "C03": "lz5 end-of-input handling of a literal without a byte; zero-length request setting decoder_failed",
 "C04": "pm2 window pre-fill dropped; build_tree capped at 16-bit codes",
 "C05": "level-1 extended header start offset with padded base header; all-caps folding before the symlink split",
 "C06": "timestamps >= 2^31 not applied; empty MacBinary member keeps its envelope",
 "C07": "decode although the output file could not be created; lha_reader_check shortcut for unknown methods",
 "C08": "use-after-free in the directory-stack release loop; double free of the inner decoder",
 "C09": "lh1 right-neighbour bound in increment_node_freq; pm2 copy_decode range check",
 "C10": "second file-name header skipping the '/' rewrite; utime on a pre-existing link when no decoder exists",
 "C11": "file-name buffer reuse; collapse_path skipped for name-less directories",
 "C12": "16-bit length in check_common_crc; Amiga -lh0- to -lhd- fix-up without the length test",
 "C13": "refcount set late so failed headers leak; declared length 0 treated as unlimited",
 "C14": "32-bit remaining-length clamp; total_blocks hoisted to file scope",
 "C15": "end of archive not sticky; stale errno after fseek",
 "C16": "int countdown in the read-and-discard skip; case-insensitive signature match",
 "C17": "(NULL,0) resetting the state; pre-fetch reading one byte past the end",
 "C18": "unknown OS byte printed raw; plain printf on the Skipped line",
 "C19": "glob match on a name cut to 255 bytes; stored name used as a format string",
 "C20": "current header not released when eof is set; decoder block lost when init fails",
}
R5_EXTRA = {
 "decoder": "Prefer rarely executed paths inside the decoders and the shared bit reader / tree builder: behaviour exactly at table or tree rebuild points, at maximum-length codes, when the window wraps exactly at a block or buffer boundary, when the bit buffer is refilled at a 32-bit boundary, when the input ends in the middle of a symbol or field, when a read request is exactly the internal block size, and data-dependent shortcuts (a fast path taken only for particular byte patterns).",
 "cli": "Prefer defects in how the command-line tool (src/) or the library's extraction code deals with its environment: results and errno values of mkdir/open/chmod/utime/symlink/unlink (EEXIST, EACCES, ENOTDIR, ENAMETOOLONG), short or failing writes to the output file or to standard output, the process umask, objects of an unexpected kind already present at an output path (directory, FIFO, symlink to a directory), descriptors or FILE streams not closed on some path (visible with a low descriptor limit and many members), very long output paths, standard input at end-of-file when a prompt is answered, and differences between the spellings of a command (with and without the leading '-').",
 "lib": "Prefer defects on error and cleanup paths of the library (a callback reporting an error or a short result at a particular point, an allocation or read failing midway through a multi-step operation, a header being rejected after part of it was processed), in the handling of rarely used header variants (OS-9, Amiga, MacLHA, LHARK, level 0 extended area, Windows timestamps, 64-bit size headers, unknown extended header types, zero-length fields), and in interactions between two extended headers or between a header field and the member's method.",
}
KIND = {"C01": "decoder", "C02": "decoder", "C03": "decoder", "C04": "decoder", "C09": "decoder", "C14": "decoder", "C17": "decoder",
        "C06": "cli", "C07": "cli", "C10": "cli", "C18": "cli", "C19": "cli", "C13": "cli", "C16": "lib",
        "C05": "lib", "C08": "lib", "C11": "lib", "C12": "lib", "C15": "lib", "C20": "lib"}
AVOID6 = {
 "C01": "expand_queue capacity check for a completely full tree; OFFSET_BITS literal 4 in the single-symbol offset path",
 "C02": "distance-one shortcut at ring position 0; mirrored window tail with MAX_COPY_LENGTH 58",
 "C03": "lzs length field 0 treated as end of input; lz5 eight-literal fast path at the ring end",
 "C04": "pm2 copy code 19 treated as the run code; literal at history position 255 rejected",
 "C05": "level-1 extended header minimum size <= 3; OS-9 decoder assigning extra_flags",
 "C06": "prompt_user reading the answer with fgets into 4 bytes; lha_arch_symlink unlinking only when stat sees the path",
 "C07": "large stdio buffer hiding write errors; test exit status from the last member only",
 "C08": "name-or-path sanity check with MacBinary strlen(NULL); OS-9 area bytes read before the length test",
 "C09": "expand_queue counting one element per entry; missing copy_count < 0 check in the LHark branch",
 "C10": "mkdir of the w= directory before the dry-run check; O_TRUNC fallback open after EEXIST",
 "C11": "parse_symlink ignoring the result of split_header_filename; split ignoring a separator at index 0",
 "C12": "level-3 length read as 16 bits; level-1 skip size smaller than the extended headers accepted",
 "C13": "prompt loop at EOF; lha_arch_fopen retry loop on EEXIST",
 "C14": "16-bit chunk length in lha_crc16_buf; single-byte shortcut above the declared-length clamp",
 "C15": "deferred list insertion before the placeholder is created; is_dangerous_symlink missing the last component",
 "C16": "marker detection in a second pass of skip_sfx; range guard before fseek",
 "C17": "int sign extension when assembling a 64-bit word; 1 MiB chunk loop re-reading buf[i]",
 "C18": "plain printf on the Failure line; plain fprintf in file_exists",
 "C19": "q clearing the verbose flag; singular 'file' for zero rows",
 "C20": "free(fullpath) dropped in parse_symlink; early return skipping free(tmp_filename) in extract_file",
}
R6 = ("Prefer these kinds of slip: a single wrong entry, bound or case in a constant table or switch statement (code and position tables of the decoders, extended-header type dispatch, OS-type, month, permission and method strings, option letters); a changed order of two operations that usually commute (chmod/chown/utime, free/assign, flush/close, push/pop); a signedness or width change of one variable; an operator-precedence, <= vs <, && vs ||, or + vs - slip inside a rarely taken branch; and the less-used entry points and modes (the three directory policies of lha_reader_set_dir_policy, lha_reader_current_is_fake, lha_file_header_full_path, lha_decoder_monitor, src/filter.c, the 'e' spelling of extract, quiet levels, header levels 0 and 3, the -lhx-/-lk7-/-lzs-/-pm1- methods). ")
AVOID7 = {
 "C01": "short block count in start_new_block; set_tree_single on the wrong tree in read_temp_table",
 "C02": "group_leader array sized NUM_CODES; static refill buffer in the bit reader",
 "C03": "if instead of while in peek_bits; char instead of int for an lzs literal",
 "C04": "history_decode[6] and copy_decode[4] table entries",
 "C05": "symlink detection requiring a file name; 16-bit ext_header_len in decode_extended_headers",
 "C06": "MacBinary check_modification_time subtraction; fchmod before fchown",
 "C07": "lha_decoder_get_length returning stream_length; ferror before fclose in extract_file",
 "C08": "pm1 MAX_COPY_BLOCK_LEN 224; skip_sfx loop bound with size_t wrap",
 "C09": "pm2 code_lengths[29]; sizeof(offset_tree) passed to build_tree",
 "C10": "leading separators (collapse_path while / file_full_path if); utime on a freshly created symlink",
 "C11": "parentheses in the empty-or-dot test of collapse_path; '/' rewrite skipped for OS type m",
 "C12": "level-1 minimum length taken from level 0; 7-bit checksum comparison",
 "C13": "(int) cast of the fseek offset; read_length_value loop without end-of-input exit",
 "C14": "fast path skipping check_progress_callback; clamp comparison wrapping at zero-length first read",
 "C15": "range check in lha_reader_set_dir_policy; bare directory entries never pushed",
 "C16": "lead-in drain test > 1; level-1 skip-size guard against a stale copy",
 "C17": "*crc read and written per byte (aliasing); stale tmp after 32767-byte runs",
 "C18": "safe_output passing text as the format; print_symlink_line target through plain printf",
 "C19": "signed timestamp in output_full_timestamp; footer dropped at quiet level 1",
 "C20": "deferred list head lost after the first pop; free before malloc in the file-name decoder",
}
R7 = ("Prefer defects that show only (a) when a call sequence goes on after an error or an unusual return value (a failed check or read followed by moving to the next member, a partial read followed by a skip, requests after the end of the archive, an extraction after a failed one, a reader whose stream reported an error once); (b) as an inconsistency between two views of the same archive (list vs test vs extract vs print; header fields vs what the tool prints or creates; the same member stored under different header levels or methods); (c) for particular combinations of members in one archive (a directory and a same-named file in either order, the same path twice, chains of links, members with empty names, a directory listed after its contents); (d) in arithmetic on sizes, ratios, percentages, time zones and daylight saving; (e) exactly at powers of two or at the maximum value of a length, count or offset field. ")
extra = ""
if len(sys.argv) > 3 and sys.argv[3] == "r7":
    extra = ("\n\nIMPORTANT: changes at the following sites/mechanisms have already been collected for this property; produce changes that hit DIFFERENT functions and mechanisms: "
             + "; ".join(x for x in (AVOID.get(pid, ""), AVOID3.get(pid, ""), AVOID4.get(pid, ""), AVOID5.get(pid, ""), AVOID6.get(pid, ""), AVOID7.get(pid, "")) if x) + ". " + R7
             + "Name your output directories " + pid + "-13 and " + pid + "-14.")
elif len(sys.argv) > 3 and sys.argv[3] == "r6":
    extra = ("\n\nIMPORTANT: changes at the following sites/mechanisms have already been collected for this property; produce changes that hit DIFFERENT functions and mechanisms: "
             + "; ".join(x for x in (AVOID.get(pid, ""), AVOID3.get(pid, ""), AVOID4.get(pid, ""), AVOID5.get(pid, ""), AVOID6.get(pid, "")) if x) + ". " + R6
             + "Name your output directories " + pid + "-11 and " + pid + "-12.")
elif len(sys.argv) > 3 and sys.argv[3] == "r5":
    extra = ("\n\nIMPORTANT: changes at the following sites/mechanisms have already been collected for this property; produce changes that hit DIFFERENT functions and mechanisms: "
             + "; ".join(x for x in (AVOID.get(pid, ""), AVOID3.get(pid, ""), AVOID4.get(pid, ""), AVOID5.get(pid, "")) if x) + ". " + R5_EXTRA[KIND[pid]]
             + " Name your output directories " + pid + "-9 and " + pid + "-10.")
elif len(sys.argv) > 3 and sys.argv[3] == "r4":
    extra = ("\n\nIMPORTANT: changes at the following sites/mechanisms have already been collected for this property; produce changes that hit DIFFERENT functions and mechanisms: "
             + AVOID.get(pid, "") + "; " + AVOID3.get(pid, "") + "; " + AVOID4.get(pid, "") + ". Prefer defects that an exhaustive-but-small test harness would plausibly overlook because they only manifest with: (a) large counts or sizes (hundreds of members, values crossing 8/16/32-bit or buffer-size boundaries, long runs), (b) unusual but legal usage patterns (stopping early, querying accessors midway, zero-length requests, continuing after a failure was reported, several archives or decoders in one process, a different order of otherwise independent calls), (c) unusual but valid encodings (redundant or padded fields, minimal or maximal field widths, optional parts present twice or in an unusual order, rarely used OS types or header levels), or (d) the interaction of two features that are each tested alone. Name your output directories " + pid + "-7 and " + pid + "-8.")
elif len(sys.argv) > 3 and sys.argv[3] == "r3":
    extra = ("\n\nIMPORTANT: changes at the following sites/mechanisms have already been collected for this property; produce changes that hit DIFFERENT functions and mechanisms: "
             + AVOID.get(pid, "") + "; " + AVOID3.get(pid, "") + ". Prefer kinds of change not in that list: two cooperating sites that each look fine alone, an error/cleanup path, a boundary of a numeric field or counter, an interaction between two options or two extended headers, state carried from one member/call to the next. Name your output directories " + pid + "-5 and " + pid + "-6.")
elif round2:
    extra = "\n\nIMPORTANT: changes at the following sites/mechanisms have already been collected for this property; produce changes that hit DIFFERENT functions and mechanisms (different clause of the property if possible): " + AVOID.get(pid, "") + ". Name your output directories " + pid + "-3 and " + pid + "-4 instead of -1 and -2."
print(f"""You are helping to evaluate a verification framework for the open-source C project fragglet/lhasa (a library and CLI that parses and decompresses LHA/LZH archives). Your job: write realistic *defect-introducing* changes ("seeded bugs") against a stated semantic property, so that we can later see whether independent machinery detects them. You work ONLY inside your own scratch git worktree of the project: {wt}  (it is already configured; `make -j16` builds it in ~15 s and `make -j16 check` runs the project's own test suite in ~1-2 minutes; the CLI test binary is src/test-lha, the normal one src/lha; the static test library is lib/liblhasatest.a, public headers are in lib/public). Do NOT read or touch /verif or /repo, and do not look at any other /tmp/wt-* directory. There is no network.

The property (id {pid}): "{p['title']}"

Statement: {p['statement']}

Quantification: {p['quantifier']['text']}

Source files where the mechanisms live: {', '.join(p['anchors']['files'])}

What to produce: TWO independent changes to the project's source (lib/ or src/; not tests), each of which
  1. breaks the property above (for some input / call history / configuration the property quantifies over),
  2. still compiles without new warnings and still passes the project's whole existing test suite (`make -j16 check` must report 10 PASS, 0 FAIL - run it and check; this matters, a change that fails the suite is useless),
  3. needs something *specific* to manifest - a particular unusual input shape, a multi-step sequence of API calls, a boundary value, a particular interleaving of operations, a fault at a particular point, or two cooperating sites that each look fine alone - NOT something that ordinary use or the first obvious test would expose at once. Think of the kind of regression a plausible refactoring, "optimisation" or off-by-one slip by a maintainer would introduce (e.g. a boundary comparison changed, a scratch buffer hoisted to file scope, a counter updated before a clamp, a tie-break order changed, a check dropped on one of several paths). Keep each change small (a few lines). The two changes should hit different mechanisms/sites.
  4. comes with a demonstration: a small C program (linking lib/liblhasatest.a or lib/.libs/liblhasa.a, including headers from lib/public or lib/) or a shell script using src/lha, which exits 0 on the unchanged tree and exits non-zero (or prints FAIL) with the change applied, showing concretely that the property is violated (not merely that behaviour differs: the demonstration must check what the property promises).

For each change k in {{1,2}} write, inside {wt}/seedout/{pid}-k/ :
  - patch.diff : `git diff` of the change alone against the worktree's HEAD (apply-able with `git apply` from the repository root; do not include seedout/ or build products),
  - demo.c or demo.sh (plus any tiny input files it needs, which it should preferably generate itself) and a run.sh that builds and runs the demonstration from the repository root given as $1 (default: the worktree), exiting 0 = property holds, non-zero = violated,
  - notes.md : which clause of the property is broken, what exactly is needed for it to manifest, why the test suite does not notice, and the output of your runs (suite result with the change; demo result with and without the change).
Work on one change at a time: apply it, build, run `make -j16 check`, run the demo; then `git checkout -- lib src` to revert, rebuild, and run the demo again to confirm it passes on the unchanged tree. Leave the worktree's tracked files UNCHANGED (reverted) when you finish; only seedout/ remains. Your final message should list, for each change, a 2-3 line summary (site, trigger, suite result, demo results).{extra}""")
