#!/bin/sh
# usage: mkworktree.sh <dir> : scratch git worktree of /repo with the generated autotools files copied in
set -e
d="$1"
git -C /repo worktree add --detach "$d" HEAD >/dev/null 2>&1
rsync -a --ignore-existing --exclude .git --exclude '*.o' --exclude '*.lo' --exclude '*.la' --exclude '*.a' --exclude '.libs' --exclude '*.log' --exclude '*.trs' /repo/ "$d"/
# generated Makefiles refer to absolute build paths of /repo in a few variables only; relative srcdir is used for builds
cd "$d" && grep -rl '/repo' --include=Makefile . | xargs -r sed -i "s#/repo#$d#g"
echo "$d ready"
