#!/usr/bin/env python3
"""Print the table of DESIGN.md 8.6 from seeded/*/meta.json (as left by tools/seedmatrix.py)."""
import json, os, re
root = "/verif/seeded"


def key(s):
    m = re.match(r"C(\d+)-(\d+)$", s)
    return (int(m.group(1)), int(m.group(2)))


ids = sorted((d for d in os.listdir(root) if re.match(r"^C\d+-\d+$", d)), key=key)
print("| seed | round | result | sites reported (first three) |")
print("|---|---|---|---|")
n = det = neutral = other = 0
for sid in ids:
    m = json.load(open(os.path.join(root, sid, "meta.json")))
    k = key(sid)[1]
    rnd = 1 if k <= 2 else 2 if k <= 4 else 3 + (k - 5) // 2
    d = m.get("detected_by_quick_check")
    if m.get("neutralised_by_fix"):
        res = "neutralised by a fix: commit (detected before it)"
        sites = ", ".join(m.get("detecting_sites_before_fix", [])[:3])
        neutral += 1
    elif m.get("detected_by_other_property"):
        res = "not by its own property's check; reported by " + m["detected_by_other_property"]
        sites = ", ".join(m.get("other_property_sites", [])[:3])
        other += 1
    else:
        res = "detected" if d is True else "MISSED" if d is False else str(d)
        sites = ", ".join(m.get("detecting_sites", [])[:3])
        det += d is True
    n += 1
    print("| %s | %d | %s | %s |" % (sid, rnd, res, sites))
print()
print("%d seeded changes: %d detected by the quick tier of their own property, %d reported by the check of a neighbouring property only, %d neutralised by a later fix: commit." % (n, det, other, neutral))
