#!/usr/bin/env python3
"""verify_seed.py <id> ...: confirm a seeded change in a scratch worktree: applies, builds, the project's own suite still passes,
the agent's demonstration fails with it and passes without it; then store it as /verif/seeded/<id>/ with meta.json."""
import sys, os, subprocess, json, shutil, time

def sh(cmd, cwd=None, timeout=1800):
    r = subprocess.run(cmd, shell=True, cwd=cwd, stdout=subprocess.PIPE, stderr=subprocess.STDOUT, timeout=timeout)
    return r.returncode, r.stdout.decode(errors="replace")

for sid in sys.argv[1:]:
    src = "/verif/seeded/_incoming/" + sid
    wt = "/tmp/wtv-" + sid
    meta = {"id": sid, "property": sid.split("-")[0], "verified_at": time.strftime("%Y-%m-%d %H:%M:%S")}
    try:
        sh("git -C /repo worktree remove --force %s" % wt)
        rc, out = sh("/verif/tools/mkworktree.sh %s" % wt)
        rc, out = sh("git apply --check %s/patch.diff && git apply %s/patch.diff" % (src, src), cwd=wt)
        meta["applies"] = rc == 0
        if rc != 0:
            meta["apply_output"] = out[-500:]
        else:
            rc, out = sh("make -j8 2>&1 | tail -3", cwd=wt)
            rc, out = sh("make -j8 check 2>&1 | grep -E '^# (TOTAL|PASS|FAIL|ERROR)'", cwd=wt)
            meta["suite_with_change"] = " ".join(out.split())
            meta["suite_passes_with_change"] = "# PASS: 10" in out.replace("  ", " ") and "# FAIL: 0" in out.replace("  ", " ")
            run = "run.sh" if os.path.exists(src + "/run.sh") else "demo.sh"
            rc, out = sh("bash %s/%s %s" % (src, run, wt), cwd=src, timeout=900)
            meta["demo_with_change_rc"] = rc
            meta["demo_with_change_tail"] = out[-400:]
            # the check-only targets (lib/liblhasatest.a, src/test-lha) are rebuilt too: some demonstrations link them
            sh("git checkout -- lib src && make -j8 2>&1 | tail -1; make -j8 -C lib liblhasatest.a 2>&1 | tail -1; make -j8 -C src test-lha 2>&1 | tail -1", cwd=wt)
            rc2, out2 = sh("bash %s/%s %s" % (src, run, wt), cwd=src, timeout=900)
            meta["demo_without_change_rc"] = rc2
            meta["demo_without_change_tail"] = out2[-300:]
            meta["confirmed"] = bool(meta["suite_passes_with_change"] and rc != 0 and rc2 == 0)
    except Exception as ex:
        meta["error"] = repr(ex)
    finally:
        sh("git -C /repo worktree remove --force %s" % wt)
        shutil.rmtree(wt, ignore_errors=True)
    dst = "/verif/seeded/" + sid
    if meta.get("confirmed"):
        os.makedirs(dst, exist_ok=True)
        for f in os.listdir(src):
            p = os.path.join(src, f)
            if os.path.isfile(p) and os.path.getsize(p) < 200000:
                shutil.copy(p, dst)
        json.dump(meta, open(dst + "/meta.json", "w"), indent=1)
    os.makedirs("/verif/seeded/_incoming/_results", exist_ok=True)
    json.dump(meta, open("/verif/seeded/_incoming/_results/%s.json" % sid, "w"), indent=1)
    print(sid, "confirmed" if meta.get("confirmed") else "NOT-CONFIRMED", meta.get("suite_with_change"), meta.get("demo_with_change_rc"), meta.get("demo_without_change_rc"), flush=True)
