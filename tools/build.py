#!/usr/bin/env python3
"""Content-addressed build of /repo's lib/ and src/ in several flavours, plus explorer binaries.

Every check calls ensure_*() first: the hash covers every source file of $LHASA_REPO (default
/repo) that goes into the build and every file of /verif/explorers and /verif/ref, so an edited
tree is always rebuilt and an unchanged one is reused (mtime is never trusted).
"""
import hashlib, os, subprocess, sys, glob, shutil, fcntl, time
from concurrent.futures import ThreadPoolExecutor

VERIF = os.path.dirname(os.path.dirname(os.path.abspath(__file__)))
REPO = os.environ.get("LHASA_REPO", "/repo")
BUILD_ROOT = os.path.join(VERIF, "build")
GUARD = "LHASA_VERIF"

SAN = "-fsanitize=address,bounds,null -fno-sanitize-recover=all -fno-omit-frame-pointer"
FLAVOURS = {
    # name: (compiler, cflags, ldflags)
    "asan":  ("clang", "-O1 -g " + SAN, SAN),
    "plain": ("clang", "-O2 -g", ""),
    "tsan":  ("clang", "-O1 -g -fsanitize=thread", "-fsanitize=thread"),
    "msan":  ("clang", "-O1 -g -fsanitize=memory -fno-omit-frame-pointer", "-fsanitize=memory"),
    "o0":    ("gcc",   "-O0 -g", ""),
}

LIB_EXCLUDE = {"bit_stream_reader.c", "lh_new_decoder.c", "pma_common.c", "tree_decode.c",
               "lha_arch_win32.c"}


def lib_sources():
    return sorted(f for f in glob.glob(os.path.join(REPO, "lib", "*.c"))
                  if os.path.basename(f) not in LIB_EXCLUDE)


def cli_sources():
    return sorted(glob.glob(os.path.join(REPO, "src", "*.c")))


def _hash_files(files, h):
    for f in sorted(files):
        h.update(os.path.relpath(f, "/").encode())
        with open(f, "rb") as fh:
            h.update(hashlib.sha256(fh.read()).digest())


def repo_hash():
    h = hashlib.sha256()
    files = []
    for pat in ("lib/*.c", "lib/*.h", "lib/public/*.h", "src/*.c", "src/*.h"):
        files += glob.glob(os.path.join(REPO, pat))
    _hash_files(files, h)
    return h.hexdigest()[:16]


def verif_hash():
    h = hashlib.sha256()
    files = []
    for pat in ("explorers/*.c", "explorers/*.h", "ref/*.c", "ref/*.h", "tools/build.py"):
        files += glob.glob(os.path.join(VERIF, pat))
    _hash_files(files, h)
    return h.hexdigest()[:16]


def build_dir():
    d = os.path.join(BUILD_ROOT, repo_hash() + "-" + verif_hash())
    os.makedirs(d, exist_ok=True)
    return d


def _run(cmd, quiet=False, **kw):
    r = subprocess.run(cmd, shell=True, stdout=subprocess.PIPE, stderr=subprocess.STDOUT, **kw)
    if r.returncode != 0:
        if not quiet:
            sys.stderr.write("BUILD FAILED: %s\n%s\n" % (cmd, r.stdout.decode(errors="replace")))
        raise SystemExit(2)
    return r.stdout.decode(errors="replace")


def _includes():
    # config.h: the generated one if present, else the fallback
    inc = "-I%s/lib/public -I%s/lib -I%s" % (REPO, REPO, REPO)
    inc += " -I%s/explorers/fallback" % VERIF
    inc += " -I%s/explorers -I%s/ref" % (VERIF, VERIF)
    return inc


class Lock:
    def __init__(self, path):
        self.path = path

    def __enter__(self):
        self.fh = open(self.path, "w")
        fcntl.flock(self.fh, fcntl.LOCK_EX)

    def __exit__(self, *a):
        fcntl.flock(self.fh, fcntl.LOCK_UN)
        self.fh.close()


def prune(keep):
    if not os.path.isdir(BUILD_ROOT):
        return
    for d in os.listdir(BUILD_ROOT):
        p = os.path.join(BUILD_ROOT, d)
        if p != keep and os.path.isdir(p) and d != "scratch":
            # keep directories touched in the last 30 minutes (another check may be using them)
            try:
                if time.time() - os.path.getmtime(p) > 600:
                    shutil.rmtree(p, ignore_errors=True)
            except OSError:
                pass


def ensure_lib(flavour, extra_defs=""):
    """Build liblhasa (lib/*.c) for a flavour; returns path of the .a"""
    bd = build_dir()
    tag = flavour + ("-" + hashlib.sha256(extra_defs.encode()).hexdigest()[:6] if extra_defs else "")
    out = os.path.join(bd, "liblhasa-%s.a" % tag)
    with Lock(os.path.join(bd, ".lock-lib-" + tag)):
        if os.path.exists(out):
            return out
        cc, cflags, _ = FLAVOURS[flavour]
        od = os.path.join(bd, "obj-lib-" + tag)
        os.makedirs(od, exist_ok=True)
        objs = []
        jobs = []
        for src in lib_sources():
            o = os.path.join(od, os.path.basename(src)[:-2] + ".o")
            objs.append(o)
            jobs.append("%s %s -D%s %s %s -c %s -o %s" % (cc, cflags, GUARD, extra_defs, _includes(), src, o))
        with ThreadPoolExecutor(16) as ex:
            list(ex.map(_run, jobs))
        _run("ar rcs %s.tmp %s && mv %s.tmp %s" % (out, " ".join(objs), out, out))
    return out


def ensure_cli(flavour):
    """Build src/*.c with -DTEST_BUILD -Dmain=lhasa_cli_main; returns path of the .a"""
    bd = build_dir()
    out = os.path.join(bd, "libcli-%s.a" % flavour)
    with Lock(os.path.join(bd, ".lock-cli-" + flavour)):
        if os.path.exists(out):
            return out
        cc, cflags, _ = FLAVOURS[flavour]
        od = os.path.join(bd, "obj-cli-" + flavour)
        os.makedirs(od, exist_ok=True)
        objs, jobs = [], []
        for src in cli_sources():
            o = os.path.join(od, os.path.basename(src)[:-2] + ".o")
            objs.append(o)
            jobs.append("%s %s -D%s -DTEST_BUILD -Dmain=lhasa_cli_main %s -c %s -o %s"
                        % (cc, cflags, GUARD, _includes(), src, o))
        with ThreadPoolExecutor(16) as ex:
            list(ex.map(_run, jobs))
        _run("ar rcs %s.tmp %s && mv %s.tmp %s" % (out, " ".join(objs), out, out))
    return out


def ensure_explorer(name, flavour="asan", with_cli=False, extra_srcs=(), extra_ld="", extra_cflags="",
                    ref=True, lib=True):
    """Build explorers/<name>.c (+ ref/*.c) against the lib flavour; returns path of the binary."""
    bd = build_dir()
    tag = "%s-%s" % (name, flavour)
    if extra_cflags:
        tag += "-" + hashlib.sha256(extra_cflags.encode()).hexdigest()[:6]
    out = os.path.join(bd, tag)
    libs = []
    if with_cli:
        libs.append(ensure_cli(flavour))
    if lib:
        libs.append(ensure_lib(flavour))
    with Lock(os.path.join(bd, ".lock-" + tag)):
        if os.path.exists(out):
            return out
        cc, cflags, ldflags = FLAVOURS[flavour]
        srcs = [os.path.join(VERIF, "explorers", name + ".c")] + [os.path.join(VERIF, s) for s in extra_srcs]
        if ref:
            srcs += sorted(glob.glob(os.path.join(VERIF, "ref", "*.c")))
        # the reference models and harness are compiled with the flavour too (msan needs it)
        line = ("%s %s %s%%s -D%s -DFLAVOUR_%s -Wall -Wno-unused-function %s %s %s %s -lpthread -lm -o %s.tmp && mv %s.tmp %s"
                % (cc, cflags, extra_cflags, GUARD, flavour.upper(), _includes(), " ".join(srcs), " ".join(libs),
                   ldflags + " " + extra_ld, out, out, out))
        try:
            _run(line % "", quiet=True)
        except SystemExit:
            # the library's private headers may have changed shape under a change that keeps every property: the explorers
            # need them only for state counting and for one extra layer of C12; build against the public interface alone
            print("note: %s does not build against the library's private headers, using the public interface only" % name)
            _run(line % " -DVF_NO_INTERNALS")
    return out


def import_audit():
    """Undefined symbols of the freshly built lib+cli objects (asan flavour), sanitizer runtime removed."""
    bd = build_dir()
    libs = [ensure_lib("plain"), ensure_cli("plain")]
    out = _run("nm -u %s | awk '/ U /{print $2}' | sort -u" % " ".join(libs))
    syms = [s.split("@")[0] for s in out.split()]
    return sorted(set(s for s in syms if not s.startswith("__") and not s.startswith("lha_")))


if __name__ == "__main__":
    t = time.time()
    bd = build_dir()
    for fl in sys.argv[1:] or ["asan"]:
        ensure_lib(fl)
        ensure_cli(fl)
    prune(bd)
    print("build dir %s (%.1fs)" % (bd, time.time() - t))
