#!/usr/bin/env python3
"""Regenerate MANIFEST.json from the table below; a property is claimed when it is in CLAIMED."""
import json, os, sys
VERIF = os.path.dirname(os.path.dirname(os.path.abspath(__file__)))

# id -> (engine, technique, level text, level note, design ref)
CLAIMED = {}

def claim(pid, engine, technique, text, note, ref):
    CLAIMED[pid] = (engine, technique, text, note, ref)

exec(open(os.path.join(VERIF, "tools", "claims.py")).read())

props = [json.loads(l) for l in open(os.path.join(VERIF, "properties.jsonl"))]
checks, na = [], []
for p in props:
    pid = p["id"]
    if pid in CLAIMED:
        engine, technique, text, note, ref = CLAIMED[pid]
        checks.append({
            "property_id": pid,
            "quick_cmd": "./check %s --tier quick" % pid,
            "thorough_cmd": "./check %s --tier thorough" % pid,
            "evidence_file": "evidence/%s.json" % pid,
            "replay_cmd_template": "./check %s --replay {path}" % pid,
            "engine": engine,
            "level_claimed": {"category": "model_checking", "text": text, "design_ref": ref},
            "level_note": note,
            "technique": technique,
        })
    else:
        na.append({"property_id": pid, "reason": NOT_CLAIMED.get(pid, "check not built yet in this tree; not claimed")})

ENGINES = [
    {"name": "E1 dec_explore", "path": "explorers/dec_lh.c", "serves_properties": ["C01", "C02", "C03", "C04", "C09", "C14"],
     "kind_free_text": "(explorers/dec_larc.c, dec_lh.c, dec_lh1.c, dec_pm.c, dec_fuzz.c, dec_split.c) in-process bounded exhaustive enumeration of compressed streams from reference serialisers / invalid-structure grammars against the real decoders (ASan/UBSan build)"},
    {"name": "E2 arc_explore", "path": "explorers/arc_explore.c", "serves_properties": ["C05", "C07", "C08", "C11", "C12", "C13", "C16"],
     "kind_free_text": "(explorers/arc_explore.c and explorers/arc_walk.c) bounded exhaustive enumeration of header/archive byte strings against the real reader, with independent reference parser / integrity predicate"},
    {"name": "E3 hist_explore", "path": "explorers/hist_explore.c", "serves_properties": ["C15", "C20", "C13", "C08"],
     "kind_free_text": "exhaustive API-history enumeration with deviation-bounded environment answers (allocation faults, stream answers), two-reader interleavings and preemption-bounded thread schedules"},
    {"name": "E4 cli_explore", "path": "explorers/cli_runner.c", "serves_properties": ["C06", "C10", "C18", "C19", "C07", "C13", "C16"],
     "kind_free_text": "enumerated (archive, argv, stdin, pre-existing tree) cases run through the real CLI main() in a sandbox with every path-taking libc call logged and resolved at call time"},
    {"name": "E5 crc_explore", "path": "explorers/crc_explore.c", "serves_properties": ["C17"],
     "kind_free_text": "complete enumeration of the CRC step function and of buffer splits"},
]
ENGINES = [e for e in ENGINES if os.path.exists(os.path.join(VERIF, e["path"]))]

man = {
    "version": 1,
    "setup_cmd": "./check setup",
    "hooks": {
        "guard": "LHASA_VERIF",
        "enable": "no source hooks exist: checks compile /repo's lib/*.c and src/*.c unmodified (tools/build.py, -DLHASA_VERIF is passed but nothing in the tree tests it); observation is through public callbacks, link-time --wrap of libc and -Dmain=lhasa_cli_main -DTEST_BUILD for the CLI",
        "baseline_off_cmd": "make -C /repo -j8 check",
        "source_commits": [],
        "add_only": True,
    },
    "engines": ENGINES,
    "checks": checks,
    "not_applicable": na,
    "notes": "Technique family: model checking as bounded exhaustive exploration of the real code (see DESIGN.md). known_findings.txt lists recorded and fixed genuine defects.",
}
json.dump(man, open(os.path.join(VERIF, "MANIFEST.json"), "w"), indent=1)
print("claimed:", " ".join(sorted(CLAIMED)), "| not claimed:", " ".join(x["property_id"] for x in na))
