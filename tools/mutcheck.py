#!/usr/bin/env python3
"""mutcheck.py <patch.diff> <ID> [tier]: apply a patch to a scratch copy of /repo under /dev/shm, run the
check of property ID against it (LHASA_REPO), report whether a VIOLATION is raised; remove the copy."""
import sys, os, subprocess, shutil, tempfile
patch, pid = sys.argv[1], sys.argv[2]
tier = sys.argv[3] if len(sys.argv) > 3 else "quick"
d = tempfile.mkdtemp(prefix="lhasa-mut.", dir="/dev/shm")
try:
    subprocess.check_call("git -C /repo archive HEAD lib src | tar -x -C %s && cp /repo/config.h %s/" % (d, d), shell=True)
    r = subprocess.run(["patch", "-p1", "-s", "-d", d, "-i", os.path.abspath(patch)])
    if r.returncode:
        print("PATCH-FAILED"); sys.exit(3)
    env = dict(os.environ, LHASA_REPO=d, VERIF_EVIDENCE_DIR=os.path.join(d, 'evidence'), VERIF_REPLAY_DIR=os.path.join(d, 'replays'))
    r = subprocess.run(["/verif/check", pid, "--tier", tier], env=env, stdout=subprocess.PIPE, stderr=subprocess.STDOUT)
    out = r.stdout.decode(errors="replace")
    v = [l for l in out.splitlines() if l.startswith("VIOLATION")]
    print("%s %s rc=%d %s" % (os.path.basename(os.path.dirname(os.path.abspath(patch))) + "/" + os.path.basename(patch), pid, r.returncode,
                             "DETECTED" if r.returncode == 1 and v else "MISSED"))
    for l in v[:3]:
        print("   ", l[:400])
    if r.returncode not in (0, 1):
        print(out[-2000:])
    sys.exit(0 if r.returncode == 1 else 1)
finally:
    shutil.rmtree(d, ignore_errors=True)
