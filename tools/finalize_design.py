#!/usr/bin/env python3
"""Refresh the generated parts of DESIGN.md: 8.2.2 (tools/bounds_table.py) and 8.6 (tools/seed_table.py)."""
import subprocess, re
p = "/verif/DESIGN.md"
s = open(p).read()
meas = subprocess.run(["/verif/tools/bounds_table.py"], stdout=subprocess.PIPE).stdout.decode()
seed = subprocess.run(["/verif/tools/seed_table.py"], stdout=subprocess.PIPE).stdout.decode()
if "MEASURED-TABLE-PLACEHOLDER" in s:
    s = s.replace("MEASURED-TABLE-PLACEHOLDER", "<!-- BEGIN measured -->\n" + meas + "<!-- END measured -->")
else:
    s = re.sub(r"<!-- BEGIN measured -->.*?<!-- END measured -->", lambda m: "<!-- BEGIN measured -->\n" + meas + "<!-- END measured -->", s, flags=re.S)
a = s.index("### 8.6 ")
b = s.index("## Appendix A")
head = "### 8.6 Seed -> detecting violation sites (quick tier of the seed's own property, `tools/seedmatrix.py`, table by `tools/seed_table.py`)\n\n"
s = s[:a] + head + seed + "\n" + s[b:]
open(p, "w").write(s)
print("DESIGN.md refreshed")
