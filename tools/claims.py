# executed by mkmanifest.py
NOT_CLAIMED = {}
claim("C17", "E5 crc_explore",
      "exhaustive enumeration of all (state, byte) pairs, all (state, 2-byte buffer) cases and all length/alignment/split combinations against the bitwise definition",
      "Complete enumeration: all 2^24 (state, next byte) pairs and the empty buffer for all 2^16 states through the real lha_crc16_buf (quick and thorough), all 2^32 (state, 2-byte buffer) single calls (thorough), and for 4 content families every length 0..300 (quick 0..128) x alignment 0..15 x every 2-way split (3-way up to length 48). Because the routine is a fold of its step, step-correctness on the whole domain plus split/length/alignment agreement leaves no data-dependent path unexplored within these lengths.",
      "Trusted: ref/ref_crc16.c (8-line bitwise definition). Buffers longer than 300 bytes are not enumerated.",
      "DESIGN.md section 3, C17")
