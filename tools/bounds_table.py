#!/usr/bin/env python3
"""Print the 'measured' table of DESIGN.md 8.2 from the evidence files of the last runs (one row per property)."""
import json, os, sys
ev = "/verif/evidence"
print("| prop | tier | cases (evaluations) | transitions | distinct non-trivial | distinct outcomes | exhaustive | wall s | spaces (cases each) |")
print("|---|---|---|---|---|---|---|---|---|")
for i in range(1, 21):
    pid = "C%02d" % i
    p = os.path.join(ev, pid + ".json")
    if not os.path.exists(p):
        continue
    d = json.load(open(p))
    c = d["coverage"]
    agg = {}
    for s in c.get("spaces", []):
        agg[s.get("space")] = agg.get(s.get("space"), 0) + (s.get("evaluations") or 0)
    spaces = ", ".join("%s %d" % (k, v) for k, v in agg.items())
    print("| %s | %s | %d | %d | %d | %d | %s | %.0f | %s |" % (pid, d["tier"], c["evaluations"], c["transitions"], c["distinct_nontrivial"], c["distinct_final_observations"],
                                                         "yes" if c["exhaustive"] else "no (cap or deadline, see the evidence file)", d["wall_s"], spaces))
